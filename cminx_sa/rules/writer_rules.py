"""E4 - rules over cminx/rstwriter.py: purity, templates, indent plumbing,
heading length, directive serialisation order."""
from __future__ import annotations

import ast
from typing import Any, Dict, List, Optional, Set, Tuple

from ..absint import (Evaluator, Outcome, SELF, NONE, attr, const, glob, is_const, show, subterms, contains)
from ..core import AnalysisError, Report
from ..model import Repo, call_name, calls_in, norm, walk_no_nested, func_params

MOD = "cminx.rstwriter"
MUTATING = {"append", "pop", "insert", "remove", "extend", "clear", "sort", "reverse", "add", "discard", "update",
            "setdefault", "popitem"}


def _eval(repo: Repo, cls: Optional[str], fn: ast.FunctionDef, **kw) -> List[Outcome]:
    # get_indents is judged on its own (rule_indent_plumbing); everywhere else it stays a symbolic call
    kw.setdefault("opaque_methods", ("get_indents", "interpreted_text") if fn.name != "get_indents" else ())
    ev = Evaluator(repo, MOD, cls, **kw)
    # every parameter is symbolic (defaults such as Settings() are not expanded)
    args = {p_: ("sym", p_) for p_ in func_params(fn)}
    if cls:
        args[func_params(fn)[0]] = SELF
    if fn.args.vararg:
        args[fn.args.vararg.arg] = ("sym", "*" + fn.args.vararg.arg)
    return ev.run_function(fn, args)


def flat(t) -> List[Any]:
    if t[0] == "binop" and t[1] == "+":
        return flat(t[2]) + flat(t[3])
    if t[0] == "fstr":
        out = []
        for p in t[1:]:
            out.extend(flat(p))
        return out
    return [t]


IT = ("it",)


def _subst(t, a, b):
    if t == a:
        return b
    if isinstance(t, tuple):
        return tuple(_subst(x, a, b) if isinstance(x, tuple) else x for x in t)
    return t


def string_parts(t, o: Outcome) -> List[Any]:
    """Normalise the ways a text is assembled (+=, f-strings, "".join of a list that was appended / extended, joined
    comprehensions) into a flat list of parts; repeated parts are ('each', iterable, [parts over ('it',)])."""
    if t[0] == "binop" and t[1] == "+":
        return string_parts(t[2], o) + string_parts(t[3], o)
    if t[0] == "fstr":
        out = []
        for p in t[1:]:
            out.extend(string_parts(p, o))
        return out
    if t[0] == "foreach":
        lp = o.state.loops.get(t[1])
        body = string_parts(_subst(t[2], ("elem", t[1], None), IT), o)
        return [("each", lp["iter"] if lp else None, body)]
    if t[0] == "call" and t[1][0] == "attr" and t[1][2] == "join" and t[1][1] == const("") and len(t[2]) == 1:
        return _joined_items(t[2][0], o)
    return [t]


def _joined_items(x, o: Outcome) -> List[Any]:
    if x[0] == "comp" and len(x[3]) == 1 and not x[3][0][2]:
        var, it, _c = x[3][0]
        return [("each", it, string_parts(_subst(x[2], ("bv", var), IT), o))]
    ob = o.state.obj(x)
    if ob is not None and ob.get("kind") == "list":
        out = []
        for item in ob["items"]:
            if isinstance(item, tuple) and item and item[0] == "spread":
                out.extend(_joined_items(item[1], o))
            elif isinstance(item, tuple) and item and item[0] == "loopitem":
                lp = o.state.loops.get(item[1])
                out.append(("each", lp["iter"] if lp else None, string_parts(_subst(item[2], ("elem", item[1], None), IT), o)))
            else:
                out.extend(string_parts(item, o))
        return out
    if x[0] in ("list", "tuple"):
        out = []
        for item in x[1:]:
            out.extend(string_parts(item, o))
        return out
    return [("joined", x)]


# ----------------------------------------------------------------------
def rule_purity(rep: Report, repo: Repo, rule: str) -> None:
    rep.rule(rule, "to_text/__str__/format_arguments/title getter of the writer, the directive and every element perform no "
                   "store and no mutating call on anything reachable from self; build_* run only from constructors and the "
                   "title setter")
    m = repo.module(MOD)
    serial = {"to_text", "__str__", "__repr__", "format_arguments", "__format__"}
    n = 0
    for ci in list(repo.classes.values()):
        if ci.module != MOD:
            continue
        for mname, fn in ci.methods.items():
            is_getter = any(norm(d) == "property" for d in fn.decorator_list)
            if mname not in serial and not is_getter:
                continue
            n += 1
            problems = _impure(repo, ci.name, fn, set())
            rep.check(not problems, rule, f"{MOD}:{ci.name}.{mname}", "no store / mutating call through self",
                      f"serialisation mutates the document: {'; '.join(problems)[:160]} - a second str() differs from the first "
                      f"or later additions are lost", witness="str(w) == str(w) fails / str(w) after to_text() changes")
    # build_* call sites
    for ci in list(repo.classes.values()):
        if ci.module != MOD:
            continue
        for mname, fn in ci.methods.items():
            for c in calls_in(fn):
                nm = call_name(c)
                if nm.startswith("self.build_"):
                    is_setter = any(norm(d).endswith(".setter") for d in fn.decorator_list)
                    ok = mname == "__init__" or is_setter or mname.startswith("build_")
                    rep.check(ok, rule, f"{MOD}:{ci.name}.{mname}", nm,
                              "a build_* method is invoked outside constructors and the title setter")
    rep.floor(rule, 12, "serialisation methods and build_* call sites")


def _impure(repo: Repo, cls: str, fn: ast.FunctionDef, seen: Set[str]) -> List[str]:
    key = f"{cls}.{fn.name}"
    if key in seen:
        return []
    seen.add(key)
    out: List[str] = []
    aliases: Set[str] = {"self"}
    # names bound to something reachable from self
    changed = True
    while changed:
        changed = False
        for n in walk_no_nested(fn):
            tgt, val = None, None
            if isinstance(n, ast.Assign) and len(n.targets) == 1:
                tgt, val = n.targets[0], n.value
            elif isinstance(n, ast.For):
                tgt, val = n.target, n.iter
            elif isinstance(n, ast.comprehension):
                tgt, val = n.target, n.iter
            if tgt is None:
                continue
            if _rooted(val, aliases):
                for x in ast.walk(tgt):
                    if isinstance(x, ast.Name) and x.id not in aliases:
                        aliases.add(x.id)
                        changed = True
    for n in walk_no_nested(fn):
        tgts = []
        if isinstance(n, ast.Assign):
            tgts = n.targets
        elif isinstance(n, (ast.AugAssign, ast.AnnAssign)):
            tgts = [n.target]
        elif isinstance(n, ast.Delete):
            tgts = n.targets
        for t in tgts:
            for x in ([t] if not isinstance(t, (ast.Tuple, ast.List)) else t.elts):
                if isinstance(x, (ast.Attribute, ast.Subscript)) and _rooted(x.value, aliases):
                    out.append(norm(n)[:50])
        if isinstance(n, ast.Call) and isinstance(n.func, ast.Attribute):
            if n.func.attr in MUTATING and _rooted(n.func.value, aliases):
                out.append(norm(n)[:50])
            # self.m(...) -> recurse
            if isinstance(n.func.value, ast.Name) and n.func.value.id == "self":
                r = repo.find_method(cls, n.func.attr)
                if r is not None:
                    out.extend(_impure(repo, cls, r[1], seen))
            if n.func.attr in ("clear", "section", "directive", "text", "field", "option", "bulleted_list",
                               "enumerated_list", "doctest", "simple_table", "write_to_file") \
                    and _rooted(n.func.value, aliases) and n.func.attr != "write_to_file":
                if norm(n)[:50] not in out:
                    out.append(norm(n)[:50])
    return out


def _rooted(e: ast.AST, aliases: Set[str]) -> bool:
    while isinstance(e, (ast.Attribute, ast.Subscript)):
        e = e.value
    if isinstance(e, ast.Call) and isinstance(e.func, ast.Attribute):
        return _rooted(e.func.value, aliases) if e.func.attr in ("copy", "values", "items", "keys") else False
    return isinstance(e, ast.Name) and e.id in aliases


# ----------------------------------------------------------------------
def rule_directive_order(rep: Report, repo: Repo, rule: str) -> None:
    rep.rule(rule, "Directive.to_text emits the heading, then every option, then a blank line iff there is content, then the "
                   "content in order; elements are only appended to the document list")
    ci = repo.cls("Directive")
    fn = ci.methods.get("to_text")
    where = f"{MOD}:Directive.to_text"
    if fn is None:
        r = repo.find_method("Directive", "to_text")       # inherited: the layout may live in an overridden hook
        fn = r[1] if r else None
    if fn is None:
        raise AnalysisError("anchor vanished: Directive.to_text")
    outs = _eval(repo, "Directive", fn)
    doc = attr(SELF, "document")
    opts = attr(SELF, "options")
    n = 0
    for o in outs:
        if o.kind != "return":
            continue
        n += 1
        parts = string_parts(o.value(), o)
        has_content = None
        for a, v in o.conds:
            if a[0] == "lencmp" and a[1] == doc and (a[2], a[3]) in ((">", 1), (">=", 2)):
                has_content = v
            if a[0] == "lencmp" and a[1] == doc and (a[2], a[3]) in (("<=", 1), ("<", 2)):
                has_content = not v
        case = f"content={has_content}: " + " + ".join(_part_desc(p, o) for p in parts)
        # classify parts
        seq = []
        for p in parts:
            seq.append(_classify_part(p, o, doc, opts))
        # merge adjacent literal newlines
        expected_a = ["heading", "nl", "options", "nl", "content"]
        expected_b = ["heading", "nl", "options", "content"]
        norm_seq = []
        for s in seq:
            if s == "nl*":
                norm_seq.append("nl")
            else:
                norm_seq.append(s)
        if has_content is None:
            rep.bad(rule, where, case, "the blank line between options and content does not depend on whether there is content")
            continue
        exp = expected_a if has_content else expected_b
        rep.check(norm_seq == exp, rule, where, case,
                  f"directive parts are emitted as {norm_seq}, expected {exp}: options must follow the heading line "
                  f"directly and a blank line must separate them from the content",
                  witness="toctree with :maxdepth: and entries")
    # option lines end with newline, content elements end with newline: checked via the foreach templates
    if n == 0:
        raise AnalysisError("Directive.to_text has no returning path")
    # elements are only appended (never inserted/removed) by the element API
    bad = []
    for cname in ("RSTWriter", "Directive"):
        for mname, mfn in repo.cls(cname).methods.items():
            if mname in ("clear", "__init__", "title", "to_text", "__str__"):
                continue
            for c in calls_in(mfn):
                if isinstance(c.func, ast.Attribute) and norm(c.func.value) in ("self.document", "self.options") \
                        and c.func.attr in MUTATING and c.func.attr != "append":
                    bad.append(f"{cname}.{mname}: {norm(c)[:40]}")
    rep.check(not bad, rule, f"{MOD}:RSTWriter/Directive", "element API only appends",
              f"elements are not appended in call order: {bad}")
    rep.floor(rule, 3, "Directive.to_text paths")


def _part_desc(p, o) -> str:
    return show(p).replace("\n", "\\n")[:50]


def _classify_part(p, o: Outcome, doc, opts) -> str:
    if is_const(p) and isinstance(p[1], str) and p[1] and set(p[1]) == {"\n"}:
        return "nl" if len(p[1]) == 1 else "nl*"
    if p == ("sub", doc, const(0)):
        return "heading"
    if p[0] == "each":
        it, body = p[1], p[2]
        ends_nl = bool(body) and body[-1] == const("\n")
        elem_only = len(body) == 2 and body[0] == IT
        if it == opts and ends_nl and elem_only:
            return "options"
        if it is not None and it[0] == "slice" and it[1] == doc and it[2] == const(1) and it[3] == NONE and ends_nl and elem_only:
            return "content"
        return f"loop({show(it) if it else None})"
    return "other:" + show(p)[:30]


# ----------------------------------------------------------------------
ELEMENTS = {
    # class -> (builder, stored field, indent attribute)
    "Paragraph": ("build_text_string", "text_string", "prefix"),
    "Field": ("build_field_string", "field_string", "indent"),
    "RSTList": ("build_list_string", "list_string", "indent"),
    "DirectiveHeading": ("build_heading_string", "heading_string", "indent"),
    "Option": ("build_option_string", "option_string", "indent"),
}


def rule_line_start_indent(rep: Report, repo: Repo, rule: str) -> None:
    rep.rule(rule, "every physical line produced by Paragraph, Field, RSTList (both kinds), DirectiveHeading and Option "
                   "starts with the element's indent string")
    for cname, (builder, field, indent_attr) in ELEMENTS.items():
        ci = repo.cls(cname)
        fn = ci.methods.get(builder)
        where = f"{MOD}:{cname}.{builder}"
        if fn is None:
            raise AnalysisError(f"anchor vanished: {cname}.{builder}")
        ind = _indent_term(repo, cname, indent_attr)
        outs = _eval(repo, cname, fn)
        n = 0
        for o in outs:
            if o.is_error_path():
                continue
            val = None
            for e in o.effects:
                if e[0] == "store" and e[1] == SELF and e[2] == field:
                    val = e[3]
            if val is None:
                continue
            n += 1
            problems = _line_starts(val, ind, o)
            # a format specification (width / alignment / fill) between the indent and the text pads the line
            from ..absint import subterms
            terms = [val] + [x for lp in o.state.loops.values() for oc in lp["outcomes"] for x in oc["assign"].values()]
            for root_t in terms:
                for t in subterms(root_t):
                    if isinstance(t, tuple) and t and t[0] == "fmt" and t[3]:
                        problems = problems + [f"a value is formatted with the specification {t[3]!r}: padding shifts the text away "
                                               f"from the indent (or truncates it)"]
                        break
                    if isinstance(t, tuple) and len(t) == 4 and t[0] == "call" and isinstance(t[1], tuple) and t[1] and t[1][0] == "attr" \
                            and t[1][2] in ("rjust", "ljust", "center", "zfill", "expandtabs"):
                        problems = problems + [f"a value is padded with .{t[1][2]}(): the padding stands between the indent and the text "
                                               f"(or inside it)"]
                        break
            rep.check(not problems, rule, where, show(val).replace("\n", "\\n")[:110],
                      f"a line of the element can start without the indent: {problems[0] if problems else ''} - inside a "
                      f"directive that line falls out of the directive body",
                      witness="multi-line paragraph / field / list inside a nested directive")
        if n == 0:
            raise AnalysisError(f"{cname}.{builder} never stores {field}")
    rep.floor(rule, len(ELEMENTS), "element templates")


def _indent_term(repo: Repo, cname: str, indent_attr: str):
    """self.<attr> that __init__ fills from the indent parameter."""
    init = repo.cls(cname).methods.get("__init__")
    if init is None:
        raise AnalysisError(f"anchor vanished: {cname}.__init__")
    params = func_params(init)
    ind_param = next((p for p in params if "indent" in p), None)
    if ind_param is None:
        raise AnalysisError(f"{cname}.__init__ has no indent parameter")
    for n in walk_no_nested(init):
        tgt, val = None, None
        if isinstance(n, ast.Assign) and len(n.targets) == 1:
            tgt, val = n.targets[0], n.value
        elif isinstance(n, ast.AnnAssign):
            tgt, val = n.target, n.value
        if tgt is not None and isinstance(val, ast.Name) and val.id == ind_param and isinstance(tgt, ast.Attribute):
            return attr(SELF, tgt.attr)
    raise AnalysisError(f"{cname}.__init__ does not store its indent parameter")


def _line_starts(val, ind, o: Outcome) -> List[str]:
    """Walk the template; at every line start the next non-newline part must be
    the indent term."""
    problems: List[str] = []

    def walk(parts, at_start: bool) -> bool:
        for p in parts:
            if is_const(p) and isinstance(p[1], str):
                for ch in p[1]:
                    if ch == "\n":
                        at_start = True
                    else:
                        if at_start:
                            problems.append(f"literal {p[1]!r} at line start")
                            at_start = False
                continue
            if p == ind:
                at_start = False
                continue
            if p[0] == "foreach":
                body = flat(p[2])
                # zero iterations keep the state; one or more: body from current state, then must be re-enterable
                end = walk(body, at_start)
                if end != at_start:
                    end2 = walk(body, end)
                    at_start = at_start and end and end2
                    # after >=1 iteration we are in state `end`; after 0 in at_start: be conservative
                    at_start = end if end == end2 else False
                else:
                    at_start = end
                continue
            if p[0] == "call" and p[1][0] == "attr" and p[1][2] == "join" and is_const(p[1][1]) and len(p[2]) == 1:
                sep = p[1][1][1]
                arg = p[2][0]
                if arg[0] == "comp":
                    elt = flat(arg[2])
                    if sep == "\n":
                        # every piece starts a line
                        if at_start:
                            e1 = walk(elt, True)
                        else:
                            problems.append("joined lines begin mid-line")
                            e1 = walk(elt, True)
                        at_start = False
                        continue
                    else:
                        at_start = walk(elt, at_start)
                        continue
                if at_start:
                    problems.append(f"joined value {show(arg)[:30]} at line start")
                at_start = False
                continue
            # any other symbolic value
            if at_start:
                problems.append(f"value {show(p)[:40]} at line start without indent")
            at_start = False
        return at_start

    walk(flat(val), True)
    return problems


# ----------------------------------------------------------------------
def rule_paragraph(rep: Report, repo: Repo, rule: str) -> None:
    """C01-R5: Paragraph splits on '\\n' only, prefixes every piece, joins with '\\n'."""
    rep.rule(rule, "Paragraph turns text into lines by splitting on '\\n' only, prefixes each piece with the same indent and "
                   "joins with '\\n': no strip, filter, splitlines, dedent, slicing")
    fn = repo.cls("Paragraph").methods.get("build_text_string")
    if fn is None:
        raise AnalysisError("anchor vanished: Paragraph.build_text_string")
    where = f"{MOD}:Paragraph.build_text_string"
    ind = _indent_term(repo, "Paragraph", "prefix")
    init = repo.cls("Paragraph").methods["__init__"]
    text_attr = None
    for n in walk_no_nested(init):
        if isinstance(n, (ast.Assign, ast.AnnAssign)):
            tgt = n.targets[0] if isinstance(n, ast.Assign) else n.target
            if isinstance(n.value, ast.Name) and n.value.id == "text" and isinstance(tgt, ast.Attribute):
                text_attr = tgt.attr
    if text_attr is None:
        raise AnalysisError("Paragraph.__init__ does not store its text parameter unchanged")
    outs = _eval(repo, "Paragraph", fn)
    n = 0
    for o in outs:
        for e in o.effects:
            if e[0] == "store" and e[1] == SELF and e[2] == "text_string":
                n += 1
                v = e[3]
                ok = False
                if v[0] == "call" and v[1] == ("attr", const("\n"), "join") and len(v[2]) == 1 and v[2][0][0] == "comp":
                    comp = v[2][0]
                    gens = comp[3]
                    if len(gens) == 1 and not gens[0][2]:
                        var, it = gens[0][0], gens[0][1]
                        split_ok = it == ("call", ("attr", attr(SELF, text_attr), "split"), (const("\n"),), ())
                        elt = flat(comp[2])
                        elt_ok = elt == [ind, ("bv", var)]
                        ok = split_ok and elt_ok
                rep.check(ok, rule, where, show(v).replace("\n", "\\n")[:100],
                          "paragraph text is altered on its way into the document (strip / filter / other split / missing indent): "
                          "doc lines are dropped, merged or lose relative indentation",
                          witness="doc text with blank lines, leading spaces or a trailing space")
    if n == 0:
        raise AnalysisError("Paragraph.build_text_string never stores text_string")
    # RSTWriter.text passes its argument unchanged
    tfn = repo.cls("RSTWriter").methods.get("text")
    if tfn is None:
        raise AnalysisError("anchor vanished: RSTWriter.text")
    outs = _eval(repo, "RSTWriter", tfn)
    for o in outs:
        for nid, ob in o.state.heap.items():
            if ob.get("kind") == "new" and ob.get("cls") == "Paragraph":
                a0 = ob["args"][0] if ob.get("args") else ob.get("kwargs", {}).get("text")
                p0 = func_params(tfn)[1]
                rep.check(a0 == ("sym", p0), rule, f"{MOD}:RSTWriter.text", f"Paragraph({show(a0)}, ...)",
                          "RSTWriter.text alters the text before storing it")
    rep.floor(rule, 2, "paragraph construction facts")


# ----------------------------------------------------------------------
def rule_indent_plumbing(rep: Report, repo: Repo, rule: str) -> None:
    rep.rule(rule, "element constructors receive get_indents(self.indent); nested directives self.indent (+1 inside); the "
                   "directive heading get_indents(self.indent - 1); get_indents(n) is n copies of three spaces")
    gi = repo.func(MOD, "get_indents")
    outs = _eval(repo, None, gi)
    ok = False
    desc = ""
    for o in outs:
        if o.kind == "return":
            v = o.value()
            desc = show(v)
            param = ("sym", func_params(gi)[0])
            if v[0] == "foreach":
                lp = o.state.loops[v[1]]
                it = lp["iter"]
                it_ok = it in (("call", glob("range"), (const(0), param), ()), ("call", glob("range"), (param,), ()))
                ok = it_ok and v[2] == const("   ")
            elif v[0] == "binop" and v[1] == "*":
                ok = (v[2] == const("   ") and v[3] == param) or (v[3] == const("   ") and v[2] == param)
            elif v[0] == "call" and v[1] == ("attr", const(""), "join") and len(v[2]) == 1 and v[2][0][0] == "comp":
                # "".join("   " for _ in range(n))
                comp = v[2][0]
                gens = comp[3]
                ok = len(gens) == 1 and not gens[0][2] and comp[2] == const("   ") and \
                    gens[0][1] in (("call", glob("range"), (const(0), param), ()), ("call", glob("range"), (param,), ()))
    rep.check(ok, rule, f"{MOD}:get_indents", desc, "get_indents(n) is not n copies of exactly three spaces: nested content is "
              "no longer aligned with the directive name", witness="any directive with content")
    gcall = lambda t: ("call", glob("get_indents"), (t,), ())
    ind = attr(SELF, "indent")
    expect = {
        "text": ("Paragraph", "indent", gcall(ind)),
        "field": ("Field", "indent", gcall(ind)),
        "bulleted_list": ("RSTList", "indent", gcall(ind)),
        "enumerated_list": ("RSTList", "indent", gcall(ind)),
    }
    w = repo.cls("RSTWriter")
    for mname, (ecls, pname, exp) in expect.items():
        fn = w.methods.get(mname)
        if fn is None:
            raise AnalysisError(f"anchor vanished: RSTWriter.{mname}")
        for o in _eval(repo, "RSTWriter", fn):
            found = False
            for nid, ob in o.state.heap.items():
                if ob.get("kind") == "new" and ob.get("cls") == ecls:
                    found = True
                    got = _ctor_arg(repo, ecls, ob, pname)
                    rep.check(got == exp, rule, f"{MOD}:RSTWriter.{mname}", f"{ecls}(..., {pname}={show(got)})",
                              f"{ecls} is created with indent {show(got)} instead of get_indents(self.indent)",
                              witness="element inside a nested directive")
                    pushed = any(e[0] == "push" and e[1] == attr(SELF, "document") and e[2] == ("ref", nid) for e in o.effects)
                    rep.check(pushed, rule, f"{MOD}:RSTWriter.{mname}", f"document.append({ecls})",
                              "the element is not appended to the document")
            if not found:
                rep.bad(rule, f"{MOD}:RSTWriter.{mname}", mname, f"no {ecls} is constructed")
    # directive(): Directive(name, self.indent, *arguments, settings=...)
    fn = w.methods.get("directive")
    for o in _eval(repo, "RSTWriter", fn):
        for nid, ob in o.state.heap.items():
            if ob.get("kind") == "new" and ob.get("cls") == "Directive":
                got = _ctor_arg(repo, "Directive", ob, "indent")
                rep.check(got == ind, rule, f"{MOD}:RSTWriter.directive", f"Directive(indent={show(got)})",
                          "a nested directive does not inherit the indent level of its parent")
                rep.check(o.kind == "return" and o.value() == ("ref", nid), rule, f"{MOD}:RSTWriter.directive",
                          "returns the new directive", "directive() does not return the directive it appended")
    # Directive.__init__ -> super().__init__(..., indent=indent + 1)
    dinit = repo.cls("Directive").methods.get("__init__")
    okp = False
    for c in calls_in(dinit):
        if norm(c.func) == "super().__init__":
            for k in c.keywords:
                if k.arg == "indent":
                    okp = norm(k.value) in ("indent + 1", "1 + indent")
            rp = func_params(repo.cls("RSTWriter").methods["__init__"])
            if "indent" in rp and len(c.args) >= rp.index("indent"):
                okp = okp or norm(c.args[rp.index("indent") - 1]) in ("indent + 1", "1 + indent")
    rep.check(okp, rule, f"{MOD}:Directive.__init__", "super().__init__(..., indent=indent + 1)",
              "the content of a directive is not one level deeper than its heading")
    # RSTWriter.__init__ stores indent
    rinit = repo.cls("RSTWriter").methods["__init__"]
    oks = any(isinstance(n, (ast.Assign, ast.AnnAssign)) and norm(n.targets[0] if isinstance(n, ast.Assign) else n.target) == "self.indent"
              and norm(n.value) == "indent" for n in walk_no_nested(rinit))
    rep.check(oks, rule, f"{MOD}:RSTWriter.__init__", "self.indent = indent", "the writer does not keep its indent level")
    # Directive.build_heading / option
    d = repo.cls("Directive")
    for o in _eval(repo, "Directive", d.methods["build_heading"]):
        for nid, ob in o.state.heap.items():
            if ob.get("kind") == "new" and ob.get("cls") == "DirectiveHeading":
                got = _ctor_arg(repo, "DirectiveHeading", ob, "indent")
                exp = gcall(("binop", "-", ind, const(1)))
                rep.check(got == exp, rule, f"{MOD}:Directive.build_heading", f"DirectiveHeading(indent={show(got)})",
                          "the directive heading is not indented one level less than the directive's content")
    for o in _eval(repo, "Directive", d.methods["option"]):
        for nid, ob in o.state.heap.items():
            if ob.get("kind") == "new" and ob.get("cls") == "Option":
                got = _ctor_arg(repo, "Option", ob, "indent")
                rep.check(got == gcall(ind), rule, f"{MOD}:Directive.option", f"Option(indent={show(got)})",
                          "directive options are not indented to the content level")
                pushed = any(e[0] == "push" and e[1] == attr(SELF, "options") for e in o.effects)
                rep.check(pushed, rule, f"{MOD}:Directive.option", "options.append(Option)", "the option is not recorded")
    rep.floor(rule, 14, "indent plumbing facts")


def _ctor_arg(repo: Repo, cls: str, ob: Dict[str, Any], pname: str):
    init = repo.cls(cls).methods["__init__"]
    params = func_params(init)[1:]
    va = init.args.vararg.arg if init.args.vararg else None
    kwonly = [a.arg for a in init.args.kwonlyargs]
    plain = [p for p in params if p != va and p not in kwonly]
    if pname in ob.get("kwargs", {}):
        return ob["kwargs"][pname]
    if pname in plain:
        i = plain.index(pname)
        args = ob.get("args", [])
        if i < len(args):
            return args[i]
    from ..model import param_defaults
    d = param_defaults(init).get(pname)
    return const(d.value) if isinstance(d, ast.Constant) else ("unknown", "default")


# ----------------------------------------------------------------------
def rule_heading(rep: Report, repo: Repo, rule: str) -> None:
    rep.rule(rule, "Heading frames the title with an over- and underline that are the same string of length "
                   "|title|*|char|; char = header list[section_level]; the title setter rebuilds element 0")
    h = repo.cls("Heading")
    fn = h.methods.get("build_heading_string")
    if fn is None:
        raise AnalysisError("anchor vanished: Heading.build_heading_string")
    where = f"{MOD}:Heading.build_heading_string"
    title, ch = attr(SELF, "title"), attr(SELF, "header_char")
    n = 0
    for o in _eval(repo, "Heading", fn):
        for e in o.effects:
            if e[0] == "store" and e[1] == SELF and e[2] == "heading_string":
                n += 1
                parts = flat(e[3])
                lines = _split_lines(parts)
                lines = [l for l in lines if l]      # drop empty leading line
                ok = len(lines) == 3 and lines[0] == lines[2] and lines[1] == [title] and len(lines[0]) == 1 \
                    and _is_repeat(lines[0][0], title, ch, o)
                rep.check(ok, rule, where, show(e[3]).replace("\n", "\\n")[:100],
                          "over-/underline are not the header character repeated to the title's length on both sides of the title",
                          witness="title of length 1 / long title / multi-byte title")
    if n == 0:
        raise AnalysisError("Heading.build_heading_string stores nothing")
    # Heading.__init__ stores title and char unchanged (evaluated, so Assign / AnnAssign / aliases read the same)
    init = h.methods["__init__"]
    p = func_params(init)
    okh = False
    for o in _eval(repo, "Heading", init, opaque_methods=("build_heading_string",)):
        st_ = {e[2]: e[3] for e in o.effects if e[0] == "store" and e[1] == SELF}
        okh = st_.get("title") == ("sym", p[1]) and st_.get("header_char") == ("sym", p[2])
    rep.check(okh, rule, f"{MOD}:Heading.__init__", "stores title/header_char unchanged", "Heading alters its title or header character")
    # RSTWriter: header_char = heading_level_chars[section_level]; headers from settings
    w = repo.cls("RSTWriter")
    winit = w.methods["__init__"]
    wp = func_params(winit)
    HEADERS = attr(attr(("sym", "settings"), "rst"), "headers")
    got_hc, got_chars, doc_init_ok = None, None, False
    for o in _eval(repo, "RSTWriter", winit, opaque_methods=("build_heading",)):
        isnone = None
        for a_, v_ in o.conds:
            if a_[0] == "isnone" and a_[1] == HEADERS:
                isnone = v_
        st_ = {}
        for e in o.effects:
            if e[0] == "store" and e[1] == SELF:
                st_[e[2]] = e[3]
        d = st_.get("document")
        dob = o.state.obj(d) if d is not None else None
        if dob is not None and dob.get("kind") == "list" and len(dob["items"]) == 1 and \
                dob["items"][0][0] == "call" and dob["items"][0][1] == ("attr", SELF, "build_heading"):
            doc_init_ok = True
        if isnone is False:
            got_chars = st_.get("heading_level_chars")
            # on *every* path with configured headers: once one path deviates it stays recorded
            if got_hc is None or got_hc == ("sub", HEADERS, ("sym", "section_level")):
                got_hc = st_.get("header_char")
    rep.check(got_hc == ("sub", HEADERS, ("sym", "section_level")), rule, f"{MOD}:RSTWriter.__init__",
              f"self.header_char = {show(got_hc) if got_hc else None}",
              "the heading character is not the configured header list indexed by section_level",
              witness="rst.headers: ['=', '-']")
    rep.check(got_chars == HEADERS, rule, f"{MOD}:RSTWriter.__init__",
              f"self.heading_level_chars = {show(got_chars) if got_chars else None}",
              "the configured header characters are not used")
    txt = {"self.document": "[self.build_heading()]" if doc_init_ok else "?"}
    # build_heading
    for cname in ("RSTWriter",):
        bfn = repo.cls(cname).methods.get("build_heading")
        for o in _eval(repo, cname, bfn):
            for nid, ob in o.state.heap.items():
                if ob.get("kind") == "new" and ob.get("cls") == "Heading":
                    a = list(ob.get("args", []))
                    kw = ob.get("kwargs", {}) or {}
                    if kw:
                        # bind by the constructor's parameter names
                        init = repo.find_method("Heading", "__init__")
                        names = func_params(init[1])[1:] if init else []
                        for nm in names[len(a):]:
                            if nm in kw:
                                a.append(kw[nm])
                    okb = len(a) == 2 and a[0][0] == "attr" and a[0][1] == SELF and "title" in a[0][2] \
                        and a[1] == attr(SELF, "header_char")
                    rep.check(okb, rule, f"{MOD}:{cname}.build_heading", f"Heading({', '.join(show(x) for x in a)})",
                              "the heading is not built from the writer's title and header character")
    # first element is the heading; title setter rebuilds element 0
    doc_init = txt.get("self.document")
    rep.check(doc_init == "[self.build_heading()]", rule, f"{MOD}:RSTWriter.__init__", f"self.document = {doc_init}",
              "the heading is not the first element of the document")
    setter = None
    for st in w.node.body:
        if isinstance(st, ast.FunctionDef) and any(norm(d).endswith(".setter") for d in st.decorator_list):
            setter = st
    if setter is None:
        raise AnalysisError("anchor vanished: RSTWriter.title setter")
    body = [norm(s) for s in setter.body if not (isinstance(s, ast.Expr) and isinstance(s.value, ast.Constant))]
    p1 = func_params(setter)[1]
    oks = len(body) >= 2 and any(b.endswith(f"title = {p1}") for b in body) and \
        "self.document[0] = self.build_heading()" in body and \
        body.index("self.document[0] = self.build_heading()") > [i for i, b in enumerate(body) if b.endswith(f"title = {p1}")][0]
    rep.check(oks, rule, f"{MOD}:RSTWriter.title.setter", "; ".join(body)[:90],
              "changing the title does not re-frame the heading (stale over-/underline length)",
              witness="w.title = 'longer title'; str(w)")
    rep.floor(rule, 7, "heading facts")


def _split_lines(parts) -> List[List[Any]]:
    lines: List[List[Any]] = [[]]
    for p in parts:
        if is_const(p) and isinstance(p[1], str):
            segs = p[1].split("\n")
            for i, s in enumerate(segs):
                if i > 0:
                    lines.append([])
                if s:
                    lines[-1].append(const(s))
        else:
            lines[-1].append(p)
    return lines


def _is_repeat(t, title, ch, o: Outcome) -> bool:
    if t[0] == "foreach":
        lp = o.state.loops.get(t[1])
        return lp is not None and lp["iter"] == title and t[2] == ch
    if t[0] == "binop" and t[1] == "*":
        ln = ("call", glob("len"), (title,), ())
        return (t[2] == ch and t[3] == ln) or (t[3] == ch and t[2] == ln)
    # "".join(ch for _ in title) / "".join([ch for _ in title]) / "".join(ch for _ in range(len(title)))
    if t[0] == "call" and t[1] == ("attr", const(""), "join") and len(t[2]) == 1 and t[2][0][0] == "comp":
        comp = t[2][0]
        gens = comp[3]
        ln = ("call", glob("len"), (title,), ())
        return len(gens) == 1 and not gens[0][2] and comp[2] == ch and \
            gens[0][1] in (title, ("call", glob("range"), (ln,), ()), ("call", glob("range"), (const(0), ln), ()))
    return False


# ----------------------------------------------------------------------
DENY = {"strip", "lstrip", "rstrip", "replace", "lower", "upper", "title", "capitalize", "casefold", "expandtabs", "splitlines",
        "swapcase", "translate", "zfill", "center", "ljust", "rjust", "removeprefix", "removesuffix"}
VALUE_ATTRS = {
    "Field": ("build_field_string", "field_string", ("field_name", "field_text")),
    "Option": ("build_option_string", "option_string", ("name", "value")),
    "DirectiveHeading": ("build_heading_string", "heading_string", ("title", "args")),
    "RSTList": ("build_list_string", "list_string", ("items",)),
}


def _altering_calls(t, value_terms) -> List[str]:
    """String-altering calls whose receiver / argument involves one of the value terms."""
    out = []
    if isinstance(t, tuple) and t:
        if t[0] == "comp":
            # variables bound over a value-derived iterable carry the value
            vt = list(value_terms)
            for var, it, conds in t[3]:
                if any(contains(it, v) for v in vt):
                    for name in [var] + [x.strip() for x in var.strip("()").split(",")]:
                        vt.append(("bv", name))
            out.extend(_altering_calls(t[2], vt))
            for var, it, conds in t[3]:
                out.extend(_altering_calls(it, vt))
                for c_ in conds:
                    out.extend(_altering_calls(c_, vt))
            return out
        if t[0] == "call" and t[1][0] == "attr" and t[1][2] in DENY and any(contains(t[1][1], v) for v in value_terms):
            out.append(f".{t[1][2]}() on {show(t[1][1])[:40]}")
        if t[0] == "call" and t[1][0] == "attr" and t[1][2] == "split" and not t[2] and any(contains(t[1][1], v) for v in value_terms):
            out.append(f".split() (whitespace) on {show(t[1][1])[:40]}")
        if t[0] == "call" and t[1][0] == "global" and t[1][1] in ("re.sub", "textwrap.dedent", "textwrap.fill", "textwrap.wrap",
                                                                      "textwrap.shorten", "textwrap.indent") \
                and any(contains(a, v) for a in t[2] for v in value_terms):
            out.append(f"{t[1][1]}(...)")
        if t[0] == "slice" and any(contains(t[1], v) for v in value_terms) and t[1][0] != "call":
            out.append(f"slice of {show(t[1])[:40]}")
        for x in t:
            if isinstance(x, tuple):
                out.extend(_altering_calls(x, value_terms))
    return out


def rule_values_verbatim(rep: Report, repo: Repo, rule: str) -> None:
    rep.rule(rule, "field names/values, option names/values, list items and directive titles/arguments are serialised exactly as "
                   "given (only str(), the indent prefix and newline re-joining are applied): no strip / replace / whitespace "
                   "normalisation / case change on the way to the text")
    n = 0
    for cname, (builder, field, attrs) in VALUE_ATTRS.items():
        ci = repo.cls(cname)
        fn = ci.methods.get(builder)
        if fn is None:
            raise AnalysisError(f"anchor vanished: {cname}.{builder}")
        vals = [attr(SELF, a) for a in attrs]
        for o in _eval(repo, cname, fn):
            if o.is_error_path():
                continue
            for e in o.effects:
                if e[0] == "store" and e[1] == SELF and e[2] == field:
                    n += 1
                    txt_parts = []
                    probs = _altering_calls(e[3], vals)
                    for lid, lp in o.state.loops.items():
                        for oc in lp["outcomes"]:
                            for v_ in oc["assign"].values():
                                probs.extend(_altering_calls(v_, vals))
                            for e2 in oc["effects"]:
                                for x in e2[1:]:
                                    if isinstance(x, tuple):
                                        probs.extend(_altering_calls(x, vals))
                    rep.check(not probs, rule, f"{MOD}:{cname}.{builder}", show(e[3]).replace("\n", "\\n")[:100],
                              f"{cname} alters the value it serialises ({'; '.join(sorted(set(probs)))[:120]}): values are not shown as written",
                              witness='set(PROMPT "> ")  /  a value with leading, trailing or repeated blanks')
        # the constructor stores the values unchanged
        init = ci.methods.get("__init__")
        for o in _eval(repo, cname, init, opaque_methods=(builder, "get_indents")):
            st_ = {e[2]: e[3] for e in o.effects if e[0] == "store" and e[1] == SELF}
            for a in attrs:
                got = st_.get(a)
                rep.check(got is not None and got[0] == "sym", rule, f"{MOD}:{cname}.__init__", f"self.{a} = {show(got) if got else None}",
                          f"{cname} does not store `{a}` as given")
    # Directive.format_arguments: arguments joined by ',' after str() only
    d = repo.cls("Directive")
    fa = d.methods.get("format_arguments")
    if fa is None:
        raise AnalysisError("anchor vanished: Directive.format_arguments")
    ARGS = attr(SELF, "arguments")
    for o in _eval(repo, "Directive", fa):
        if o.kind != "return":
            continue
        v = o.value()
        ok = v in (("call", ("attr", const(","), "join"), (("call", glob("map"), (glob("str"), ARGS), ()),), ()),
                   ("call", ("attr", const(","), "join"), (ARGS,), ()))
        if not ok and v[0] == "call" and v[1] == ("attr", const(","), "join") and len(v[2]) == 1 and v[2][0][0] == "comp":
            comp = v[2][0]
            var = comp[3][0][0] if len(comp[3]) == 1 else None
            ok = var is not None and comp[3][0][1] == ARGS and not comp[3][0][2] and \
                comp[2] in (("call", glob("str"), (("bv", var),), ()), ("bv", var))
        n += 1
        rep.check(ok, rule, f"{MOD}:Directive.format_arguments", show(v)[:100],
                  "directive arguments (signatures, names) are normalised before they are written: an argument is not shown as written",
                  witness='function(f "first  arg" [[second   arg]])  /  message(STATUS "  a   b")')
    # Directive.__init__ keeps its varargs as they are
    di = d.methods.get("__init__")
    for o in _eval(repo, "Directive", di, opaque_methods=("build_heading", "get_indents")):
        st_ = {e[2]: e[3] for e in o.effects if e[0] == "store" and e[1] == SELF}
        got = st_.get("arguments")
        rep.check(got is not None and got[0] == "sym", rule, f"{MOD}:Directive.__init__", f"self.arguments = {show(got) if got else None}",
                  "Directive does not keep its arguments as given")
    rep.floor(rule, 8, "value serialisation facts")


def rule_file_is_rendered_text(rep: Report, repo: Repo, rule: str) -> None:
    """What write_to_file puts into the file is the rendered document itself - str(self) - not a transformation of it: the file of
    `-o` mode has the bytes that stdout mode prints (no Unicode normalisation, re-wrapping, stripping or re-encoding with a lossy
    error handler on the way to the disk)."""
    import ast
    from ..core import AnalysisError
    from ..model import call_name, norm, walk_no_nested
    rep.rule(rule, "RSTWriter.write_to_file writes exactly str(self) (or to_text()) through every write call; open() has no lossy "
                   "error handler and no newline translation argument")
    r = repo.find_method("RSTWriter", "write_to_file")
    if r is None:
        raise AnalysisError("anchor vanished: RSTWriter.write_to_file")
    fn = r[1]
    where = "cminx.rstwriter:RSTWriter.write_to_file"
    self_name = fn.args.args[0].arg
    rendered = {f"str({self_name})", f"{self_name}.to_text()", f"{self_name}.__str__()"}
    once = {}
    for n in walk_no_nested(fn):
        if isinstance(n, ast.Assign) and len(n.targets) == 1 and isinstance(n.targets[0], ast.Name):
            once.setdefault(n.targets[0].id, []).append(n.value)
    n_w = 0
    for c in walk_no_nested(fn):
        if isinstance(c, ast.Call) and isinstance(c.func, ast.Attribute) and c.func.attr in ("write", "writelines", "write_text"):
            n_w += 1
            arg = c.args[0] if c.args else None
            while isinstance(arg, ast.Name) and len(once.get(arg.id, [])) == 1:
                arg = once[arg.id][0]
            ok = arg is not None and norm(arg) in rendered and c.func.attr != "writelines"
            rep.check(ok, rule, where, norm(c)[:70],
                      f"the file receives `{norm(arg)[:60] if arg is not None else None}`, not the rendered document: the page on disk "
                      f"differs from the text of the doccomments (and from what stdout mode prints)",
                      witness="doc text that is not in NFC / contains a long line, written with -o")
        if isinstance(c, ast.Call) and call_name(c) in ("open", "io.open", "codecs.open"):
            kws = {k.arg: k.value for k in c.keywords}
            lossy = "errors" in kws and not (isinstance(kws["errors"], ast.Constant) and kws["errors"].value in ("strict", None))
            rep.check(not lossy and "newline" not in kws, rule, where, norm(c)[:70],
                      "the output file is opened with a lossy error handler or a newline translation: characters of the doc text are "
                      "replaced or dropped on the way to the disk")
    rep.floor(rule, 2, "write calls")


def rule_options_persist(rep: Report, repo: Repo, rule: str) -> None:
    """Options handed to a directive are emitted in every later serialisation - also after clear(), which empties the content
    (everything behind the heading) only: the option list is written by the constructor and by option(), by nothing else."""
    import ast
    rep.rule(rule, "a directive's option list is only ever written by __init__ and option(): no other method (clear(), to_text(), "
                   "the title setter ...) empties, replaces or reorders it")
    n = 0
    for cname in ("Directive", "RSTWriter"):
        ci = repo.cls(cname)
        for mname, fn in ci.methods.items():
            self_name = fn.args.args[0].arg if fn.args.args else "self"
            for node in ast.walk(fn):
                hit = None
                if isinstance(node, ast.Call) and isinstance(node.func, ast.Attribute) and isinstance(node.func.value, ast.Attribute) \
                        and norm(node.func.value) == f"{self_name}.options" \
                        and node.func.attr in ("clear", "pop", "remove", "insert", "sort", "reverse", "extend", "append", "__delitem__"):
                    hit = norm(node)
                if isinstance(node, (ast.Assign, ast.AugAssign, ast.AnnAssign, ast.Delete)):
                    tgts = node.targets if isinstance(node, (ast.Assign, ast.Delete)) else [node.target]
                    for t in tgts:
                        base = t.value if isinstance(t, ast.Subscript) else t
                        if norm(base) == f"{self_name}.options":
                            hit = norm(node)
                if hit is None:
                    continue
                n += 1
                rep.check(mname in ("__init__", "option"), rule, f"{MOD}:{cname}.{mname}", hit[:70],
                          f"{cname}.{mname} changes the directive's option list: options added earlier are missing (or moved) in the "
                          f"next serialisation", witness="d.option('maxdepth', 2); d.clear(); str(document)")
    rep.floor(rule, 2, "writes to the option list")

"""C07 - generated reST is structurally well formed (nesting clause)."""
from ..core import Report
from ..model import Repo
from . import misc_rules, render, writer_rules


def run(rep: Report, repo: Repo, tier: str) -> None:
    rep.unit("src/cminx/documentation_types.py", "src/cminx/rstwriter.py", "src/cminx/documenter.py")
    rep.assume("docutils acceptance of the text is not decided; the nesting clause is: every emission of an entry goes through the "
               "entry's own directive, and every line of nested content carries the directive's indent")
    with rep.isolated():
        render.rule_ownership(rep, repo, "C07-R1")
    with rep.isolated():
        writer_rules.rule_line_start_indent(rep, repo, "C07-R2a")
    with rep.isolated():
        writer_rules.rule_indent_plumbing(rep, repo, "C07-R2b")
    with rep.isolated():
        misc_rules.rule_document_order(rep, repo, "C07-R3")
    with rep.isolated():
        misc_rules.rule_writer_first_element(rep, repo, "C07-R3w")
    with rep.isolated():
        writer_rules.rule_directive_order(rep, repo, "C07-R4")
    # nested reST constructs inside a doc text (directive bodies, literal blocks) are only valid if the cleaner keeps the
    # relative indentation of the doccomment lines and the paragraph prefixes every line uniformly
    with rep.isolated():
        misc_rules.rule_clean_parameters(rep, repo, "C07-R5")
    with rep.isolated():
        writer_rules.rule_paragraph(rep, repo, "C07-R5p")
    from . import bindings
    with rep.isolated():
        bindings.rule_module_doc_verbatim(rep, repo, "C07-R5m")
    with rep.isolated():
        render.rule_doc_starts_block(rep, repo, "C07-R6")
    # members are nested in their own class's directive: attachment goes to the innermost open class
    from . import protocol
    with rep.isolated():
        protocol.rule_classstack(rep, repo, "C07-R7")
    # values reach the text as written: CMinx introduces no line break of its own into a field or argument
    with rep.isolated():
        writer_rules.rule_values_verbatim(rep, repo, "C07-R8")
    with rep.isolated():
        render.rule_no_line_breaks_introduced(rep, repo, "C07-R9")
    # argument values reach the entries as written: the listener introduces no line break of its own either
    with rep.isolated():
        bindings.rule_set_partition(rep, repo, "C07-R10")
    # in stdout mode the page is the only thing on stdout: no info-level record from the pipeline precedes the title
    from . import pathterms, fsrules
    with rep.isolated():
        pathterms.rule_stdout_branch(rep, repo, "C07-R11")
    # the page of a module is the last writer of its file (a module named index.cmake shares <dir>/index.rst with the index)
    with rep.isolated():
        fsrules.rule_index_before_pages(rep, repo, "C07-R12")
    # members are rendered on the class directive, all of them, in list order (no regrouping / de-duplication of the lists)
    from . import render as _render
    with rep.isolated():
        _render.rule_class_rendering(rep, repo, "C07-R13")
    # the doc text that is rendered is the cleaned doccomment itself: nothing re-indents it between cleaner and entry
    from . import bindings as _bd
    with rep.isolated():
        _bd.rule_pairing(rep, repo, "C07-R14")
    # member commands are recognised (and nested into their class) however they are capitalised
    with rep.isolated():
        misc_rules.rule_case_folding(rep, repo, "C07-R15")

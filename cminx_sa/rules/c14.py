"""C14 - index.rst toctrees are closed and complete."""
from ..core import Report
from ..model import Repo
from . import fsrules, writer_rules


def run(rep: Report, repo: Repo, tier: str) -> None:
    rep.unit("src/cminx/__init__.py", "src/cminx/rstwriter.py")
    rep.assume("os.walk(topdown=True) visits exactly the directories left in the yielded list",
               "pathspec decides matches consistently for the same path string")
    with rep.isolated():
        fsrules.rule_same_source(rep, repo, "C14-R1")
    with rep.isolated():
        fsrules.rule_predicates_agree(rep, repo, "C14-R1p")
    with rep.isolated():
        fsrules.rule_stem_agreement(rep, repo, "C14-R1s")
    with rep.isolated():
        fsrules.rule_prechecks_filtered(rep, repo, "C14-R2")
    with rep.isolated():
        fsrules.rule_no_mutation_while_iterating(rep, repo, "C14-R2m")
    with rep.isolated():
        fsrules.rule_topdir_test(rep, repo, "C14-R3")
    with rep.isolated():
        writer_rules.rule_directive_order(rep, repo, "C14-R4")
    with rep.isolated():
        fsrules.rule_index_always_written(rep, repo, "C14-R5")
    with rep.isolated():
        fsrules.rule_isolation(rep, repo, "C14-R6")
    # "no toctree entry lacks a generated target": the page of <dir>/<name>.cmake is written to <out>/<dir>/<stem>.rst
    from . import pathterms
    with rep.isolated():
        pathterms.rule_page_path(rep, repo, "C14-R7")
    with rep.isolated():
        fsrules.rule_pages_not_skipped(rep, repo, "C14-R8")
    # a directory listed by its parent is not skipped afterwards: no `continue` in the walk outside the auto-exclusion block
    with rep.isolated():
        fsrules.rule_recursion_switch(rep, repo, "C14-R9")
    # "'<sub>/index.rst' for exactly its processed subdirectories": a subdirectory excluded by pattern is not processed, so the
    # subdirectory match must work (directory patterns need the trailing separator)
    with rep.isolated():
        fsrules.rule_match_sites(rep, repo, "C14-R10")
    # "no toctree entry lacks a generated target": a listed sub-directory is one the walk enters
    with rep.isolated():
        fsrules.rule_symlinked_subdirs(rep, repo, "C14-R11")
    # "every index.rst contains one toctree": no page can take the index's place
    with rep.isolated():
        fsrules.rule_index_name_collision(rep, repo, "C14-R12")
    # "its title names the directory (the prefix for the top directory)": the default prefix is the directory's name
    from .c12 import rule_prefix_default
    with rep.isolated():
        rule_prefix_default(rep, repo, "C14-R13")
    with rep.isolated():
        fsrules.rule_file_list_filters(rep, repo, "C14-R14")

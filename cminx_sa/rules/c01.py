"""C01 - doccomment text reaches the output verbatim."""
from ..core import Report
from ..model import Repo
from . import atn_rules, bindings, misc_rules, protocol, render, writer_rules


def run(rep: Report, repo: Repo, tier: str) -> None:
    rep.unit("src/cminx/aggregator.py", "src/cminx/documentation_types.py", "src/cminx/rstwriter.py",
             "src/cminx/documenter.py", "src/cminx/parser/CMakeLexer.py", "src/cminx/parser/CMakeParser.py")
    rep.assume("str.lstrip(chars)/rstrip(chars)/split/join/slicing semantics of Python",
               "antlr4 lexer: longest match, then first rule; non-greedy loops stop at the first exit",
               "decides flow integrity and the parameters of the string surgery for the canonical doccomment form; the character-level "
               "result for non-canonical doccomments is not claimed")
    with rep.isolated():
        misc_rules.rule_decode(rep, repo, "C01-R1")
    with rep.isolated():
        bindings.rule_pairing(rep, repo, "C01-R2")
    with rep.isolated():
        bindings.rule_doc_storage(rep, repo, "C01-R3")
    with rep.isolated():
        bindings.rule_module_doc_verbatim(rep, repo, "C01-R3m")
    with rep.isolated():
        render.rule_doc_rendering(rep, repo, "C01-R4")
    with rep.isolated():
        writer_rules.rule_paragraph(rep, repo, "C01-R5")
    with rep.isolated():
        misc_rules.rule_clean_parameters(rep, repo, "C01-R6")
    with rep.isolated():
        atn_rules.rule_doc_tokens(rep, repo, "C01-R7")
    with rep.isolated():
        protocol.rule_rejections(rep, repo, "C01-R8")
    from . import fsrules as _fsr
    with rep.isolated():
        _fsr.rule_always_regenerates(rep, repo, "C01-R9")
    # a documented command in a form the listener accepts always gets its entry (and with it its doc text)
    with rep.isolated():
        protocol.rule_accepted_arities(rep, repo, "C01-R10")
    # the page that carries the doc text is not overwritten by the directory index, and is written as rendered
    with rep.isolated():
        _fsr.rule_index_before_pages(rep, repo, "C01-R11")
    with rep.isolated():
        writer_rules.rule_file_is_rendered_text(rep, repo, "C01-R12")

    # every file's doc text ends up in a page of its own: <out>/<dir>/<stem>.rst with the stem up to the *last* dot
    from . import pathterms as _pt
    with rep.isolated():
        _pt.rule_page_path(rep, repo, "C01-R13")

"""C09 - class entries reflect the cpp_class structure of the source."""
from ..core import Report
from ..model import Repo
from . import bindings, protocol, render


def run(rep: Report, repo: Repo, tier: str) -> None:
    rep.unit("src/cminx/aggregator.py", "src/cminx/documentation_types.py")
    rep.assume("ParseTreeWalker visits commands in source order", "the display text for the variadic 'args' type is not decided")
    with rep.isolated():
        protocol.rule_classstack(rep, repo, "C09-R1")
    with rep.isolated():
        bindings.rule_class_bindings(rep, repo, "C09-R2")
    with rep.isolated():
        render.rule_class_rendering(rep, repo, "C09-R3")
    with rep.isolated():
        render.rule_member_independence(rep, repo, "C09-R3m")
    from . import tables
    with rep.isolated():
        tables.rule_settings_plain(rep, repo, "C09-R2s")
    with rep.isolated():
        protocol.rule_accepted_arities(rep, repo, "C09-R6", kinds=["cpp_class", "cpp_member", "cpp_constructor", "cpp_attr"])
    with rep.isolated():
        protocol.rule_rejections(rep, repo, "C09-R4", kinds=["cpp_class", "cpp_member", "cpp_constructor", "cpp_attr", "cpp_end_class"])
    # the inner-class list and the member fields are list / field elements inside the class directive: every line indented
    from . import writer_rules
    with rep.isolated():
        writer_rules.rule_line_start_indent(rep, repo, "C09-R5")
    if tier == "thorough":
        from . import trace_rules
        with rep.isolated():
            trace_rules.rule_class_traces(rep, repo, "C09-I")
    # "a macro note iff that definition is a macro": however macro() is capitalised
    from . import misc_rules as _mr
    with rep.isolated():
        _mr.rule_case_folding(rep, repo, "C09-R7")

"""C02 - exactly one entry per documentable command, in source order."""
from ..core import Report
from ..model import Repo
from . import atn_rules, misc_rules, protocol, render


def run(rep: Report, repo: Repo, tier: str) -> None:
    rep.unit("src/cminx/aggregator.py", "src/cminx/documenter.py", "src/cminx/documentation_types.py",
             "src/cminx/parser/CMakeParser.py", "src/cminx/config.py")
    rep.assume("ParseTreeWalker calls enter* callbacks in document order, parent before children",
               "the listener depends on the input only through the command name, argument count and the abstract state atoms",
               "ambiguity in cmake_file resolves to the lowest alternative")
    with rep.isolated():
        protocol.rule_protocol_default(rep, repo, "C02-R1")
    with rep.isolated():
        rule_consumption(rep, repo, "C02-R2")
    with rep.isolated():
        misc_rules.rule_document_order(rep, repo, "C02-R3")
    with rep.isolated():
        render.rule_kind_rendering(rep, repo, "C02-R4")
    from . import bindings, writer_rules
    with rep.isolated():
        bindings.rule_generic_binding(rep, repo, "C02-R6")
    with rep.isolated():
        writer_rules.rule_values_verbatim(rep, repo, "C02-R7")
    with rep.isolated():
        atn_rules.rule_file_grammar(rep, repo, "C02-R5")
    with rep.isolated():
        _late_rules(rep, repo)
    if tier == "thorough":
        from . import trace_rules
        with rep.isolated():
            trace_rules.rule_entry_traces(rep, repo, "C02-I")


def rule_consumption(rep: Report, repo: Repo, rule: str) -> None:
    from ..listener import model
    from .protocol import WHERE, row_case
    rep.rule(rule, "the documented-command callback records its command context and its doccomment as consumed before dispatch; a "
                   "consumed doccomment is not reported as dangling, an unconsumed one is (and produces no entry)")
    lm = model(repo)
    n = 0
    for k in lm.kinds():
        for r in lm.rows("DOC", k):
            if "exc" in r.val or r.error:
                continue
            n += 1
            rep.check(r.consumed_push >= 2 and not r.warned, rule, WHERE + ".enterDocumented_command", row_case(r)[:90],
                      "the doccomment of a documented command is reported as dangling, or its contexts are not recorded as consumed",
                      witness="#[[[\\n# doc\\n#]]\\nfunction(f)")
            # consumed before the first entry effect
            effs = r.outcome.effects
            first_cons = next((i for i, e in enumerate(effs) if e[0] == "push" and e[1] == lm.consumed and "command_invocation" in str(e[2])), None)
            first_entry = next((i for i, e in enumerate(effs) if e[0] == "push" and e[1] in (lm.entries,)), None)
            if first_entry is not None:
                rep.check(first_cons is not None and first_cons < first_entry, rule, WHERE + ".enterDocumented_command",
                          row_case(r)[:70] + " [order]", "the command context is marked consumed only after dispatch")
    for r in lm.rows("DANGLING", "-"):
        rep.check(r.warned and not r.entries, rule, WHERE + ".enterBracket_doccomment", "dangling doccomment: warned, no entry",
                  "a doccomment that is not followed by a command produces an entry or passes silently")
    rep.floor(rule, 15, "consumption facts")


def _late_rules(rep, repo):
    from . import bindings, render
    with rep.isolated():
        bindings.rule_test_bindings(rep, repo, "C02-R8", "C02-R8f")        # "arguments as written and in order" for the CTest kind
    with rep.isolated():
        render.rule_render_total(rep, repo, "C02-R9")                       # members appear: rendering cannot raise
    with rep.isolated():
        protocol.rule_rejections(rep, repo, "C02-R10")
    with rep.isolated():
        protocol.rule_accepted_arities(rep, repo, "C02-R11")
    from . import fsrules
    with rep.isolated():
        fsrules.rule_always_regenerates(rep, repo, "C02-R12")
    # the page that holds the entries is not overwritten by the directory index (a module called index.cmake)
    with rep.isolated():
        fsrules.rule_index_before_pages(rep, repo, "C02-R13")
    # members of a class appear in the class entry, each once: the render loops run over the member lists themselves
    with rep.isolated():
        render.rule_class_rendering(rep, repo, "C02-R14")

"""C13 - directory mode writes exactly one page per processed CMake file."""
from ..core import Report
from ..model import Repo
from . import fsrules, pathterms


def run(rep: Report, repo: Repo, tier: str) -> None:
    rep.unit("src/cminx/__init__.py", "src/cminx/rstwriter.py")
    rep.assume("os.walk(topdown=True) honours in-place pruning; os.path.join discards earlier components when a later one "
               "is absolute; os.path.relpath/basename return location-independent strings",
               "the predicates agree with the property's '*.cmake, case-insensitive' on every name except those the rule lists")
    fsrules.rule_write_census(rep, repo, "C13-R1")
    rep.floor("C13-R1", 10, "write-site obligations (guard + rooting)")
    pathterms.rule_page_path(rep, repo, "C13-R2")
    fsrules.rule_stem_agreement(rep, repo, "C13-R2s")
    fsrules.rule_recursion_switch(rep, repo, "C13-R3")
    fsrules.rule_no_mutation_while_iterating(rep, repo, "C13-R4a")
    fsrules.rule_pruning_in_place(rep, repo, "C13-R4b")
    fsrules.rule_predicates_agree(rep, repo, "C13-R4c")
    fsrules.rule_same_source(rep, repo, "C13-R4d")
    fsrules.rule_isolation(rep, repo, "C13-R5")
    fsrules.rule_listing_before_creation(rep, repo, "C13-R6")
    fsrules.rule_index_always_written(rep, repo, "C13-R7")
    # "under the output directory": the directory the user named, resolved when the run starts
    from .c16 import rule_output_dir_resolution
    rule_output_dir_resolution(rep, repo, "C13-R8")
    # "processed are the non-excluded files ... of every non-excluded subdirectory"
    fsrules.rule_match_sites(rep, repo, "C13-R9")
    # ... and that set does not depend on where (or whether) output is written
    fsrules.rule_mode_independence(rep, repo, "C13-R10")

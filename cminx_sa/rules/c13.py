"""C13 - directory mode writes exactly one page per processed CMake file."""
from ..core import Report
from ..model import Repo
from . import fsrules, pathterms


def run(rep: Report, repo: Repo, tier: str) -> None:
    rep.unit("src/cminx/__init__.py", "src/cminx/rstwriter.py")
    rep.assume("os.walk(topdown=True) honours in-place pruning; os.path.join discards earlier components when a later one "
               "is absolute; os.path.relpath/basename return location-independent strings",
               "the predicates agree with the property's '*.cmake, case-insensitive' on every name except those the rule lists")
    with rep.isolated():
        fsrules.rule_write_census(rep, repo, "C13-R1")
    rep.floor("C13-R1", 10, "write-site obligations (guard + rooting)")
    with rep.isolated():
        pathterms.rule_page_path(rep, repo, "C13-R2")
    with rep.isolated():
        fsrules.rule_stem_agreement(rep, repo, "C13-R2s")
    with rep.isolated():
        fsrules.rule_recursion_switch(rep, repo, "C13-R3")
    with rep.isolated():
        fsrules.rule_no_mutation_while_iterating(rep, repo, "C13-R4a")
    with rep.isolated():
        fsrules.rule_pruning_in_place(rep, repo, "C13-R4b")
    with rep.isolated():
        fsrules.rule_predicates_agree(rep, repo, "C13-R4c")
    with rep.isolated():
        fsrules.rule_same_source(rep, repo, "C13-R4d")
    with rep.isolated():
        fsrules.rule_isolation(rep, repo, "C13-R5")
    with rep.isolated():
        fsrules.rule_listing_before_creation(rep, repo, "C13-R6")
    with rep.isolated():
        fsrules.rule_index_always_written(rep, repo, "C13-R7")
    # "under the output directory": the directory the user named, resolved when the run starts
    from .c16 import rule_output_dir_resolution
    with rep.isolated():
        rule_output_dir_resolution(rep, repo, "C13-R8")
    # "processed are the non-excluded files ... of every non-excluded subdirectory"
    with rep.isolated():
        fsrules.rule_match_sites(rep, repo, "C13-R9")
    # ... and that set does not depend on where (or whether) output is written
    with rep.isolated():
        fsrules.rule_mode_independence(rep, repo, "C13-R10")
    # a subdirectory is auto-excluded exactly when it holds no (non-excluded, regular) CMake file of its own: the parent's probe
    # and the directory's own check agree
    with rep.isolated():
        fsrules.rule_prechecks_filtered(rep, repo, "C13-R11")
    # "exactly one .rst per processed file ... plus one index.rst per processed directory": the two name spaces are disjoint
    with rep.isolated():
        fsrules.rule_index_name_collision(rep, repo, "C13-R12")
    # "only with -r": the recursive switch in effect is the layered one (no CLI default shadows a settings file)
    from .c16 import rule_cli_defaults
    with rep.isolated():
        rule_cli_defaults(rep, repo, "C13-R13")
    # "processed are the non-excluded files": the file list is filtered by the exclusion match only
    with rep.isolated():
        fsrules.rule_file_list_filters(rep, repo, "C13-R14")

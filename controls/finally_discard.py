"""Positive control for C06-R10 (never executed): three statements that discard an exception in flight, and harmless twins."""


def discards(items, flag):
    for it in items:
        try:
            it.run()
        finally:
            if not flag:
                break                      # 1
    while True:
        try:
            items.pop()
        finally:
            continue                       # 2
    try:
        return items[0]
    finally:
        return None                        # 3


def harmless(items):
    for it in items:
        try:
            it.run()
        finally:
            for x in it.children:          # break belongs to a loop inside the finally block
                if x is None:
                    break
            it.close()
        if it.done:
            break

"""Positive control for the 'no deletion call' rule (C18-R2): this snippet is
never executed; the matcher must find the three deletion calls below."""
import os
import shutil


def cleanup(path):
    os.remove(path)
    shutil.rmtree(path + ".d")
    os.rename(path, path + ".bak")

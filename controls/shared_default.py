"""Positive control for C17-R3 (write through a default-argument object).
Never executed."""


class Collector:
    def __init__(self, items=[]):
        self.items = items

    def add(self, x):
        self.items.append(x)

"""Positive control for the render-totality rule (never executed): four hazards and a bounded twin."""
import re


class Leaky:
    def process(self, d):
        for i, param in enumerate(self.params):
            d.field(param, self.param_types[i])                 # 1: index bounded by another list
        for a, b in zip(self.params, self.param_types, strict=True):   # 2: strict zip
            d.field(a, b)
        k = len(self.params)
        d.text(self.param_types[k])                              # 3: no bound at all
        if re.search(rf":param\s+{self.name}\s*:", self.doc):    # 4: field text spliced into a pattern unescaped
            d.text("documented")


class Bounded:
    def process(self, d):
        for i in range(len(self.param_types)):
            if i >= len(self.params):
                break
            d.field(self.params[i], self.param_types[i])
        for i, t in enumerate(self.param_types):
            if i < len(self.params):
                d.field(self.params[i], t)
        if re.search(rf":param\s+{re.escape(self.name)}\s*:", self.doc) or re.search(r":type \w+:", self.doc):
            d.text("documented")

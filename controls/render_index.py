"""Positive control for the render-totality rule (never executed): three hazards and a bounded twin."""


class Leaky:
    def process(self, d):
        for i, param in enumerate(self.params):
            d.field(param, self.param_types[i])                 # 1: index bounded by another list
        for a, b in zip(self.params, self.param_types, strict=True):   # 2: strict zip
            d.field(a, b)
        k = len(self.params)
        d.text(self.param_types[k])                              # 3: no bound at all


class Bounded:
    def process(self, d):
        for i in range(len(self.param_types)):
            if i >= len(self.params):
                break
            d.field(self.params[i], self.param_types[i])
        for i, t in enumerate(self.param_types):
            if i < len(self.params):
                d.field(self.params[i], t)

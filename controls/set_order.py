"""Positive control for the 'set order never reaches output' rule (C17-R4): never executed.  The matcher must find the four
order-sensitive consumers in `leaky` and none in `order_free`."""


def leaky(names, writer):
    bases = {f":class:`{n}`" for n in names}
    writer.text("Bases: " + ", ".join(bases))          # 1: join over a set
    for b in bases:                                     # 2: for loop over a set
        writer.text(b)
    seen = set(names)
    listed = [x for x in seen | {"extra"}]              # 3: comprehension over set algebra
    return f"{seen}", listed                            # 4: f-string of a set


def order_free(names, writer):
    seen = set(names)
    if "x" in seen and len(seen) > 1:
        writer.text(", ".join(sorted(seen)))
    return any(n.startswith("_") for n in seen), sorted(x for x in seen)

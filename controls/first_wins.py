"""Positive control for C17-R9 (never imported, only parsed)."""
import copy
import os


def first_wins(root, subdirs):
    seen = set()
    for d in copy.copy(subdirs):
        real = os.path.realpath(os.path.join(root, d))
        if real in seen:
            subdirs.remove(d)
        else:
            seen.add(real)


def sorted_first_wins(root, subdirs):
    seen = set()
    for d in sorted(subdirs):
        real = os.path.realpath(os.path.join(root, d))
        if real in seen:
            subdirs.remove(d)
        else:
            seen.add(real)


def stateless(root, subdirs, spec):
    for d in copy.copy(subdirs):
        if spec.match_file(os.path.join(root, d, "")):
            subdirs.remove(d)

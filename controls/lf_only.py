"""Positive control for C04-R6 (never executed): four LF-only matching operations and four harmless twins."""
import re


def lf_only(value):
    a = value.replace("\\\n", "")              # 1 backslash + LF
    b = re.sub(r"\\\n\s*", "", value)           # 2 regex: backslash, LF, blanks
    c = value.endswith(";\n")                   # 3
    d = "]]\n" in value                         # 4
    return a, b, c, d


def harmless(value):
    a = value.split("\n")                       # line structure
    b = re.sub(r"\\\r?\n", "", value)            # CR aware
    c = value.startswith("\n")
    d = value.replace("\r\n", "\n")
    return a, b, c, d

#!/bin/sh
# Offline setup: nothing to build; smoke-test the interpreter, the antlr4 runtime used as a
# library and the positive controls.
cd "$(dirname "$0")" || exit 1
PY=/venv/bin/python
[ -x "$PY" ] || { echo "missing /venv/bin/python"; exit 1; }
mkdir -p evidence/replay
"$PY" -B - <<'PYEOF'
import ast, sys
sys.path.insert(0, ".")
import yaml                    # config_default.yaml reader
from antlr4.atn.ATNDeserializer import ATNDeserializer   # used as a library on extracted data only
from cminx_sa import core, model, absint, fsflow, atn
for f in ("controls/deleter.py", "controls/shared_default.py"):
    ast.parse(open(f).read())
print("cminx_sa setup ok")
PYEOF

"""Validate MANIFEST.json and evidence/*.json against the schemas (run with python3-vt)."""
import glob, json, sys
import jsonschema
m = json.load(open('MANIFEST.json'))
jsonschema.validate(m, json.load(open('/root/.vp/MANIFEST.schema.json')))
s = json.load(open('/root/.vp/EVIDENCE.schema.json'))
bad = 0
for f in sorted(glob.glob('evidence/*.json')):
    try:
        jsonschema.validate(json.load(open(f)), s)
    except Exception as e:
        bad += 1
        print('INVALID', f, str(e)[:200])
print('manifest ok;', len(glob.glob('evidence/*.json')), 'evidence files,', bad, 'invalid')
sys.exit(1 if bad else 0)

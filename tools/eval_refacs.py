#!/venv/bin/python
"""tools/eval_refacs.py <dir>... : behaviour-preserving refactorings (patch.diff) must keep every check at exit 0.
Applies each patch in a scratch worktree, runs the test suite (69 passed expected) and every check (quick+thorough)."""
import concurrent.futures as cf
import json, os, re, shutil, subprocess, sys, tempfile

VERIF = os.path.dirname(os.path.dirname(os.path.abspath(__file__)))
PROPS = [f"C{n:02d}" for n in range(1, 21)]


def sh(cmd, cwd=None, env=None):
    r = subprocess.run(cmd, cwd=cwd, env=env, capture_output=True, text=True, timeout=900)
    return r.returncode, r.stdout + r.stderr


def evaluate(d):
    d = os.path.abspath(d)
    wt = tempfile.mkdtemp(prefix="refwt_", dir="/tmp/wt")
    os.rmdir(wt)
    sh(["git", "-C", "/repo", "worktree", "add", "-q", wt, "HEAD"])
    res = {"alarms": {}}
    try:
        rc, out = sh(["git", "apply", os.path.join(d, "patch.diff")], cwd=wt)
        if rc:
            res["error"] = "patch does not apply: " + out[:150]
            return d, res
        env = dict(os.environ, PYTHONPATH=os.path.join(wt, "src"))
        rc, out = sh(["/venv/bin/python", "-m", "pytest", "-q", "-p", "no:cacheprovider", "--timeout=900"], cwd=wt, env=env)
        res["tests"] = out.strip().splitlines()[-1][:14] if out.strip() else ""
        ev = tempfile.mkdtemp(prefix="refev_")
        env2 = dict(os.environ, CMINX_SA_EVIDENCE_DIR=ev)
        if os.environ.get("EVAL_NO_CONTROLS"):
            env2["CMINX_SA_NO_CONTROLS"] = "1"
        for p in PROPS:
            for tier in ("quick", "thorough"):
                rc, out = sh(["/venv/bin/python", "-B", "-m", "cminx_sa", p, tier, "--repo", wt], cwd=VERIF, env=env2)
                if rc != 0:
                    lines = [l.strip()[:230] for l in out.splitlines() if re.match(r"^  C\d\d-", l) or "ANALYSIS-ERROR" in l]
                    res["alarms"][f"{p}/{tier}"] = (rc, lines[:3])
        shutil.rmtree(ev, ignore_errors=True)
    finally:
        sh(["git", "-C", "/repo", "worktree", "remove", "--force", wt])
        shutil.rmtree(wt, ignore_errors=True)
    return d, res


if __name__ == "__main__":
    with cf.ThreadPoolExecutor(max_workers=6) as ex:
        for d, res in ex.map(evaluate, sys.argv[1:]):
            q = {k: v for k, v in res["alarms"].items() if k.endswith("/quick") or k.replace("/thorough", "/quick") not in res["alarms"]}
            print(f"{d.replace('/tmp/wt/', ''):22} tests={res.get('tests')} {'SILENT' if not res['alarms'] else 'ALARMS'} {res.get('error', '')}")
            for k, (rc, lines) in q.items():
                print(f"      {k} exit {rc}: " + " || ".join(lines))

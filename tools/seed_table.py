#!/venv/bin/python
"""Prints the markdown table of seeded changes (DESIGN.md section 12) from seeded/*/meta.json."""
import glob, json, os
rows = []
for d in sorted(glob.glob(os.path.join(os.path.dirname(os.path.dirname(os.path.abspath(__file__))), "seeded", "*"))):
    try:
        m = json.load(open(os.path.join(d, "meta.json")))
    except Exception:
        continue
    prop = m.get("property", "?")
    fired = m.get("checks_fired", {})
    own = sorted({r for k, v in fired.items() if k.startswith(prop + "/") for r in v["rules"]})
    others = sorted({k.split("/")[0] for k in fired if not k.startswith(prop + "/")})
    summ = " ".join(str(m.get("summary", "")).split())[:150]
    needs = " ".join(str(m.get("needs", "")).split())[:110]
    rows.append(f"| {os.path.basename(d)} | {prop} | {summ} | {needs} | {', '.join(own) if own else '**missed**'} | {', '.join(others) or '-'} |")
print("| seeded change | breaks | what was changed | needs, to manifest | caught by (own property) | also fires |")
print("|---|---|---|---|---|---|")
print("\n".join(rows))

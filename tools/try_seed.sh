#!/bin/sh
# tools/try_seed.sh <dir with patch.diff demo.py meta.json> [props...]
# Confirms a seeded change in a scratch worktree: demo passes without it, tests pass with it, demo fails with it;
# then runs the checks (quick and thorough) against the patched tree with evidence redirected.
D=$(cd "$1" && pwd); shift
WT=/tmp/wt/verify_$$
git -C /repo worktree add -q "$WT" HEAD || exit 2
trap 'git -C /repo worktree remove --force "$WT" >/dev/null 2>&1; rm -rf /tmp/wt/ev_$$' EXIT
cd "$WT"
export PYTHONPATH="$WT/src"
/venv/bin/python "$D/demo.py" >/tmp/wt/ev_$$.demo0 2>&1; R0=$?
git apply "$D/patch.diff" || { echo "PATCH DOES NOT APPLY"; exit 2; }
T=$(/venv/bin/python -m pytest -q -p no:cacheprovider --timeout=900 2>&1 | tail -1)
/venv/bin/python "$D/demo.py" >/tmp/wt/ev_$$.demo1 2>&1; R1=$?
echo "demo without change: exit $R0 | tests with change: $T | demo with change: exit $R1"
rm -f /tmp/wt/ev_$$.demo0 /tmp/wt/ev_$$.demo1
unset PYTHONPATH
cd /verif
PROPS="$@"; [ -z "$PROPS" ] && PROPS=$(seq -f "C%02g" 1 20)
for P in $PROPS; do
  for TIER in quick thorough; do
    OUT=$(CMINX_SA_EVIDENCE_DIR=/tmp/wt/ev_$$ /venv/bin/python -B -m cminx_sa $P $TIER --repo "$WT" 2>&1); RC=$?
    if [ $RC -ne 0 ]; then echo "== $P $TIER exit $RC"; echo "$OUT" | grep -v "^WARN" | grep -E "^  C|ANALYSIS-ERROR|^  witness" | cut -c1-330 | head -8; fi
  done
done

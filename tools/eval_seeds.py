#!/venv/bin/python
"""tools/eval_seeds.py <dir>... : confirm seeded changes in scratch worktrees and run all checks against them.
For each dir (patch.diff, demo.py, meta.json): demo on clean tree must pass, tests with patch must pass (69), demo with
patch must fail.  Then every check (quick+thorough) runs with --repo <worktree>; prints which rules fire.
--save: copy confirmed changes to /verif/seeded/<name>/ with an augmented meta.json."""
import concurrent.futures as cf
import json, os, re, shutil, subprocess, sys, tempfile

VERIF = os.path.dirname(os.path.dirname(os.path.abspath(__file__)))
PROPS = [f"C{n:02d}" for n in range(1, 21)]


def sh(cmd, cwd=None, env=None, timeout=900):
    r = subprocess.run(cmd, cwd=cwd, env=env, capture_output=True, text=True, timeout=timeout, shell=isinstance(cmd, str))
    return r.returncode, r.stdout + r.stderr


def evaluate(d):
    d = os.path.abspath(d)
    wt = tempfile.mkdtemp(prefix="seedwt_", dir="/tmp/wt")
    os.rmdir(wt)
    rc, out = sh(["git", "-C", "/repo", "worktree", "add", "-q", wt, "HEAD"])
    if rc:
        return d, {"error": out}
    res = {}
    try:
        env = dict(os.environ, PYTHONPATH=os.path.join(wt, "src"))
        res["demo_clean"] = sh(["/venv/bin/python", os.path.join(d, "demo.py")], cwd=wt, env=env)[0]
        rc, out = sh(["git", "apply", os.path.join(d, "patch.diff")], cwd=wt)
        if rc:
            res["error"] = "patch does not apply: " + out[:200]
            return d, res
        rc, out = sh(["/venv/bin/python", "-m", "pytest", "-q", "-p", "no:cacheprovider", "--timeout=900"], cwd=wt, env=env)
        res["tests"] = out.strip().splitlines()[-1] if out.strip() else ""
        res["demo_patched"] = sh(["/venv/bin/python", os.path.join(d, "demo.py")], cwd=wt, env=env)[0]
        ev = tempfile.mkdtemp(prefix="seedev_")
        env2 = dict(os.environ, CMINX_SA_EVIDENCE_DIR=ev, CMINX_SA_NO_CONTROLS="1")  # checker controls are not about the seed
        fired = {}
        for p in PROPS:
            for tier in ("quick", "thorough"):
                rc, out = sh(["/venv/bin/python", "-B", "-m", "cminx_sa", p, tier, "--repo", wt], cwd=VERIF, env=env2)
                if rc != 0:
                    rules = sorted(set(re.findall(r"^  (C\d\d-[A-Za-z0-9]+) at", out, re.M)))
                    if rc == 2:
                        rules = ["ANALYSIS-ERROR: " + " ".join(l for l in out.splitlines() if "ANALYSIS-ERROR" in l)[:160]]
                    fired[f"{p}/{tier}"] = {"exit": rc, "rules": rules}
        res["fired"] = fired
        shutil.rmtree(ev, ignore_errors=True)
    finally:
        sh(["git", "-C", "/repo", "worktree", "remove", "--force", wt])
        shutil.rmtree(wt, ignore_errors=True)
    return d, res


def main():
    args = [a for a in sys.argv[1:] if not a.startswith("--")]
    save = "--save" in sys.argv
    with cf.ThreadPoolExecutor(max_workers=8) as ex:
        for d, res in ex.map(evaluate, args):
            meta = {}
            try:
                meta = json.load(open(os.path.join(d, "meta.json")))
            except Exception:
                pass
            prop = meta.get("property", "?")
            confirmed = res.get("demo_clean") == 0 and "69 passed" in res.get("tests", "") and res.get("demo_patched", 0) != 0
            fired = res.get("fired", {})
            own = [k for k in fired if k.startswith(prop + "/") and fired[k]["exit"] == 1]
            compact = "; ".join(f"{k}:{','.join(v['rules'])[:70]}" for k, v in fired.items() if k.endswith("/quick") or k.replace("/thorough", "/quick") not in fired)
            print(f"{d.replace('/tmp/wt/', ''):24} prop={prop} confirmed={confirmed} (clean={res.get('demo_clean')} tests='{res.get('tests', '')[:12]}' patched={res.get('demo_patched')}) "
                  f"own-check={'CAUGHT' if own else 'missed'} | {compact or res.get('error', '')}")
            if save and confirmed:
                name = f"{prop}-{os.path.basename(os.path.dirname(d))[4:]}-{os.path.basename(d)}".replace("out_", "")
                parent = os.path.basename(os.path.dirname(d))
                name = (parent.replace("out2_", "") + "-r2" if parent.startswith("out2_") else parent.replace("out_", "")) + "-" + os.path.basename(d)
                dst = os.path.join(VERIF, "seeded", name)
                os.makedirs(dst, exist_ok=True)
                for f in ("patch.diff", "demo.py"):
                    shutil.copy(os.path.join(d, f), os.path.join(dst, f))
                meta["confirmed_by_me"] = {"demo_on_clean_tree_exit": res.get("demo_clean"), "tests_with_change": res.get("tests"),
                                           "demo_with_change_exit": res.get("demo_patched"),
                                           "how": "tools/eval_seeds.py: scratch git worktree of /repo HEAD, PYTHONPATH=<wt>/src"}
                meta["checks_fired"] = fired
                meta["caught_by_own_property_check"] = bool(own)
                json.dump(meta, open(os.path.join(dst, "meta.json"), "w"), indent=1)


if __name__ == "__main__":
    main()

"""Source table of MANIFEST.json (see tools/gen_manifest.py)."""

ENGINES = [
    {"name": "cminx_sa", "path": "cminx_sa/", "serves_properties": [f"C{n:02d}" for n in range(1, 21)],
     "kind_free_text": "repository-specific static analysis: ast program model, abstract evaluator (effect summaries / "
                       "binding terms), label-propagation dataflow for filesystem flows, ATN automata for the generated "
                       "lexer/parser, structural rules for rstwriter and cminx.cmake"},
]

NOTES = ("All checks are static: they parse /repo's current working tree and never import or run CMinx. Exit 0 = all "
         "rule instances hold; exit 1 + VIOLATION line = a recognised construct contradicts a rule; exit 2 + "
         "ANALYSIS-ERROR = an anchor vanished or a decisive construct could not be interpreted (never a pass). "
         "Genuine defects found on the pinned tree were repaired by `fix:` commits in /repo and are recorded in "
         "known_findings.json as fixed; defects that could not be repaired safely are listed there as known.")

CHECKS = {
    "C06": ("exception-escape analysis: listener raise-on-all-paths, handler census, error-count gate, ATN EOF anchor",
            "All paths / all call sites: every listener attached to the lexer and parser raises on every path with a type that "
            "the generated rule handlers cannot swallow (or the parse is gated on the syntax-error count), no except handler "
            "for a pipeline error type finishes without raising, output is produced only after process() returned, the entry "
            "rule is EOF-anchored, exit statuses are non-zero. Decides the escalation structure, not which inputs the lexer rejects "
            "(that is C05's token-language rule).", "DESIGN.md 5/C06"),
    "C13": ("write-site census + guard dominance + path-term evaluation + loop/predicate rules on document()",
            "Structural: every file-system write site of the package is enumerated, dominated by 'output directory set' and rooted "
            "at it; the page path term is join(output, dirname(relpath), stem+'.rst') on every abstract path; recursion cut-off, "
            "filter pipeline (no mutation while iterating, in-place pruning, equal predicates, same filtered+sorted list) and per-file "
            "isolation hold. Not decided: pathspec semantics, case-sensitive auto-exclusion pre-check.", "DESIGN.md 5/C13"),
    "C14": ("same-source / predicate-agreement / filter-agreement rules on the index block of document()",
            "Structural necessary conditions for closure: toctree entries and page production iterate the same exclusion-filtered, "
            "sorted lists with equal predicates; subdirectory entries come from the pruned list and only under `recursive`; both "
            "'has a CMake file' checks see the filtered view; the top-directory test compares with '.'; options precede entries.",
            "DESIGN.md 5/C14"),
    "C15": ("loop-mutation lint, os.walk pruning typestate, match-site census, early-return dominance",
            "All loops of the package: no list is mutated while iterated; pruning acts in place on the list os.walk yielded, "
            "top-down, before any rebinding; input path, each subdirectory (trailing separator) and each file are matched against "
            "the one spec compiled from all sources; the early return precedes every effect. Not decided: gitignore semantics of pathspec.",
            "DESIGN.md 5/C15"),
    "C17": ("taint dataflow (ABS/ORDER/ENV labels) to content sinks + shared-state effect analysis",
            "All flows in cminx/__init__.py and Documenter.__init__: no value derived from an absolute location, an unsorted "
            "listing, time/random/hash/env reaches a title, module name, toctree entry, printed page or the order of page "
            "production; settings are deep-copied per input, never written through; no module/class-level state or shared "
            "default-argument object is mutated on the processing path.", "DESIGN.md 5/C17"),
    "C18": ("write-site census with guard dominance and rooting, deletion-call census with positive control, stdout/file branch terms",
            "All call sites: every creator is dominated by 'output directory is not None' and writes below it, the package contains "
            "no deletion/rename call, the stdout branch prints exactly str(writer)+'\\n' of the processed page and touches no file, "
            "index writers are never printed, info-level logging is guarded by output mode.", "DESIGN.md 5/C18"),
    "C20": ("purity effect analysis, template line-start analysis, indent plumbing terms, heading length domain, emission order",
            "All methods of rstwriter.py: serialisation methods are pure; every physical line of Paragraph/Field/RSTList/"
            "DirectiveHeading/Option starts with the element's indent; indents are get_indents(level) with level+1 inside "
            "directives and 3 spaces per level; heading lines have length |title|*|char| and are rebuilt by the title setter; "
            "Directive.to_text emits heading, options, blank line iff content, content.", "DESIGN.md 5/C20"),
}

_PENDING = "check not built yet in this session (static rules designed in DESIGN.md section 5; being implemented)"
NOT_APPLICABLE = {p: _PENDING for p in
                  ["C01", "C02", "C03", "C04", "C05", "C07", "C08", "C09", "C10", "C11", "C12", "C16", "C19"]}

"""Source table of MANIFEST.json (see tools/gen_manifest.py)."""

ENGINES = [
    {"name": "cminx_sa", "path": "cminx_sa/", "serves_properties": [f"C{n:02d}" for n in range(1, 21)],
     "kind_free_text": "repository-specific static analysis: ast program model, abstract evaluator (effect summaries / "
                       "binding terms), label-propagation dataflow for filesystem flows, ATN automata for the generated "
                       "lexer/parser, structural rules for rstwriter and cminx.cmake"},
]

NOTES = ("All checks are static: they parse /repo's current working tree and never import or run CMinx. Exit 0 = all "
         "rule instances hold; exit 1 + VIOLATION line = a recognised construct contradicts a rule; exit 2 + "
         "ANALYSIS-ERROR = an anchor vanished or a decisive construct could not be interpreted (never a pass). "
         "Genuine defects found on the pinned tree were repaired by `fix:` commits in /repo and are recorded in "
         "known_findings.json as fixed; defects that could not be repaired safely are listed there as known. The thorough tier also re-applies every self-test variant to the current tree (checker controls); a failing control is exit 2 on the tree the controls were validated on (selftest/validated_tree.json) and a note on any other tree.")

CHECKS = {
    "C06": ("exception-escape analysis: listener raise-on-all-paths, handler census, error-count gate, ATN EOF anchor",
            "All paths / all call sites: every listener attached to the lexer and parser raises on every path with a type that "
            "the generated rule handlers cannot swallow (or the parse is gated on the syntax-error count), no except handler "
            "for a pipeline error type finishes without raising, output is produced only after process() returned, the entry "
            "rule is EOF-anchored, exit statuses are non-zero. Decides the escalation structure, not which inputs the lexer rejects "
            "(that is C05's token-language rule). Also: listeners are attached before any token is pulled, and process() cannot return before the entry-rule parse (must-pass-through); statements are followed through private helpers. Round 3: no break/continue/return inside finally; super() delegation of listeners is followed. Rounds 4-5: census of error strategies assigned to a recognizer (report*/recover must reach notifyErrorListeners); no freshness shortcut before the parse. Round 6: the processing functions are only called directly, never handed to a pool/thread/callback. Round 7: hand-written subclasses of the generated recognizers leave the error plumbing alone (or call super()).", "DESIGN.md 5/C06"),
    "C13": ("write-site census + guard dominance + path-term evaluation + loop/predicate rules on document()",
            "Structural: every file-system write site of the package is enumerated, dominated by 'output directory set' and rooted "
            "at it; the page path term is join(output, dirname(relpath), stem+'.rst') on every abstract path; recursion cut-off, "
            "filter pipeline (no mutation while iterating, in-place pruning, equal predicates, same filtered+sorted list) and per-file "
            "isolation hold. Not decided: pathspec semantics, case-sensitive auto-exclusion pre-check. Also: toctree stem = page stem; filtering by rebinding the walk list is rejected; nothing is created before the walk lists the tree; the index write is conditional on the output directory only. All rules read the helper-inlined, canonicalised AST. Rounds 3-5: the output directory is resolved against the cwd of the run or the config file (C13-R8), all match sites use the one compiled spec with a trailing separator for directories (C13-R9), no decision in the walk depends on the output directory (C13-R10). Round 6: the parent's probe and the directory's own 'has a CMake file' check agree (C13-R11). Round 7: no CLI default shadows input.recursive; known finding F19 (index.cmake takes the place of the directory index).", "DESIGN.md 5/C13"),
    "C14": ("same-source / predicate-agreement / filter-agreement rules on the index block of document()",
            "Structural necessary conditions for closure: toctree entries and page production iterate the same exclusion-filtered, "
            "sorted lists with equal predicates; subdirectory entries come from the pruned list and only under `recursive`; both "
            "'has a CMake file' checks see the filtered view; the top-directory test compares with '.'; options precede entries. Also: a toctree file entry is the same function of the file name as the page name (stem agreement); the index write has no further guard; settings are deep-copied per input. Rounds 4-5: page production not inside a swallowing handler; only the recursion switch and the exclusion match may empty or filter the walk's directory list. Round 6: sub-directory match sites (trailing separator); symlinked sub-directories are pruned unless the walk follows links (F18, fixed). Round 7: index titles use the configured separator; known finding F19.",
            "DESIGN.md 5/C14"),
    "C15": ("loop-mutation lint, os.walk pruning typestate, match-site census, early-return dominance",
            "All loops of the package: no list is mutated while iterated; pruning acts in place on the list os.walk yielded, "
            "top-down, before any rebinding; input path, each subdirectory (trailing separator) and each file are matched against "
            "the one spec compiled from all sources; the early return precedes every effect; the input path is matched in absolute form with a trailing separator for directories (forward dataflow over the prefix of document()); os.walk starts at that absolute path; -e patterns enter the list unconverted. Not decided: gitignore semantics of pathspec. Rounds 4-5: the match is the only condition of a removal, exclusion loops are not nested under a switch, the input path is not symlink-resolved. Round 6: the auto-exclusion probe sees every file of the directory through the exclusion filter. Round 7: the sub-directory path is joined, not concatenated (the first walk root already ends in a separator).",
            "DESIGN.md 5/C15"),
    "C17": ("taint dataflow (ABS/ORDER/ENV labels) to content sinks + shared-state effect analysis",
            "All flows in cminx/__init__.py and Documenter.__init__: no value derived from an absolute location, an unsorted "
            "listing, time/random/hash/env reaches a title, module name, toctree entry, printed page or the order of page "
            "production; settings are deep-copied per input, never written through; no module/class-level state or shared "
            "default-argument object is mutated on the processing path. A keyed (hence tie-preserving) sort does not remove the ORDER label. Package-wide: no order-sensitive consumer of a set (positive control), no absolute location interpreted as glob/fnmatch/regex pattern, walk root absolute. Rounds 4-5: RES/ENV labels (realpath, getcwd); in-place writes to class-level lists are shared state; a page is produced from the file on every call. Round 6: no removal/skip decision over an unsorted listing reads state the same loop accumulates (positive control). Round 7: without -r the walk ends with the input directory on every path (F20, fixed); auto-exclusion probe independent of listing order; link test independent of the tree's location.", "DESIGN.md 5/C17"),
    "C18": ("write-site census with guard dominance and rooting, deletion-call census with positive control, stdout/file branch terms",
            "All call sites: every creator is dominated by 'output directory is not None' and writes below it, the package contains "
            "no deletion/rename call, the stdout branch prints exactly str(writer)+'\\n' of the processed page and touches no file, "
            "index writers are never printed, info-level logging is guarded by output mode. Also: the output directory is resolved against the cwd of the run (or the config file), and pages of a directory are produced in sorted order; -o outranks the -s file (source order); no pruning, skip or page production inside the walk is conditional on the output directory. Rounds 3-4: the index is written before the pages of its directory; info-level logging census over the whole pipeline. Round 6: the file of -o mode holds exactly what stdout mode prints (write_to_file writes str(self)). Round 7: the page loop runs over the sorted file names themselves.", "DESIGN.md 5/C18"),
    "C20": ("purity effect analysis, template line-start analysis, indent plumbing terms, heading length domain, emission order",
            "All methods of rstwriter.py: serialisation methods are pure; every physical line of Paragraph/Field/RSTList/"
            "DirectiveHeading/Option starts with the element's indent; indents are get_indents(level) with level+1 inside "
            "directives and 3 spaces per level; heading lines have length |title|*|char| and are rebuilt by the title setter; "
            "Directive.to_text emits heading, options, blank line iff content, content. Also: element values and directive arguments are serialised exactly as given. Round 3: the heading is the first element and no cached copy can come back (clear keeps document[0]). Round 4: a format specification between indent and text pads the line (C20-R3). Round 6: padding calls (.rjust/.ljust/.center/.zfill) in a line template. Round 7: the configured header character is used on every path; the option list is written by __init__ and option() only.", "DESIGN.md 5/C20"),
}


CHECKS.update({
    "C01": ("flow-integrity dataflow (ctx -> cleaner -> doc field -> .text on own directive) + strip-parameter analysis of the cleaner + ATN token order/non-greedy facts",
            "All paths of the callbacks, the 13 constructor sites, all 12 render methods and the cleaning function: the doc text that a "
            "processor stores is the cleaned text of this command's own doccomment, every kind renders it exactly once unmodified on its "
            "own directive, Paragraph only splits on '\\n' and prefixes, the cleaner's slices/strips have exactly the parameters the "
            "canonical form needs (indent from the closing line, lstrip set with '#' and no alnum/space, one guarded space), the input is "
            "decoded as UTF-8, doccomment tokens win over comment tokens and are non-greedy. Not decided: character-level result for "
            "non-canonical doccomments. Also: every object carrying the doc text is attached to the entry list or the innermost open class; the module doc body is passed line for line. Rounds 4-5: a documented command is rejected only for an explained reason (arity, keyword in last position, missing class); a page is produced from the file on every call (no freshness shortcut). Round 6: accepted arities, index written before the pages, write_to_file writes str(self) unchanged. Round 7: every file's page is <out>/<dir>/<stem>.rst with the stem up to the last dot.", "DESIGN.md 5/C01"),
    "C02": ("typestate/effect table of the listener over a finite predicate abstraction (all command kinds x DOC/UNDOC x state atoms) vs protocol table; ATN grammar equivalence; render-term table",
            "Exhaustive over the abstraction: for every command kind, event shape and valuation of the atoms the callbacks consult, "
            "the entries appended, the pending-declaration slot and the consumed set behave as the property prescribes under default "
            "flags; the entry list is only appended to and rendered front to back; each kind renders as its directive; cmake_file and "
            "its alternative order are as the effect model assumes. Thorough adds abstract trace exploration (all well-nested event "
            "sequences up to length 7) of the extracted table. Also: generic entries bind name and arguments as written and in order; values reach the text unmodified; command names are modelled as written in upper case so a missing case fold is a protocol violation. Round 3: CTest signature binding, rendering cannot raise (bounded indexing), commands are rejected only for their own arity. Rounds 4-5: accepted-arity table per command kind; process_docs is unconditional; a page is produced from the file on every call. Round 6: index written before the pages; class render loops run over the member lists themselves.", "DESIGN.md 5/C02"),
    "C03": ("definition-stack typestate from the effect table + binding terms + signature template terms",
            "Exhaustive over the abstraction and all flag valuations: one push per definition event on every non-error path, one pop per "
            "end command, cmake_parse_arguments marks index -1 only under non-emptiness and only a documenting element; name = arg0 "
            "unstripped, params = args[1:] through re.sub(kind's pattern), kwargs trigger in doc; '**kwargs' appended once, last, iff "
            "has_kwargs. Regex semantics are not decided. Also: the signature reaches the text unmodified; no CLI default shadows the trigger/strip options; settings dataclasses are plain records. Round 3: entry methods that modify the entry are called from the render loop only ('**kwargs' once). Rounds 4-5: rules bind parameters by position and discover locals by what they are bound to (robust to renames). Round 7: entry protocol of every command kind (documented end commands pop too).", "DESIGN.md 5/C03"),
    "C04": ("ATN action/language analysis of skipped tokens, position-taint lint, case-fold dominance, uniform-indent analysis",
            "Structural necessary conditions: exactly the four trivia rules end in `skip` on every accepting path and have the manual's "
            "languages; positions reach only logs/exceptions; every command-name read is case folded before use; the indent bound is one "
            "value measured on the closing line. The CRLF clause is not decided. Structural part of the CRLF clause: the @module name (the one length-sensitive sink fed from doccomment text) is trimmed of CR. Round 3: no LF-only multi-character matching anywhere in the package (structural part of the CRLF clause). Round 5: the paragraph writer only splits at LF and prefixes lines. Round 6: position taint is transitive over locals and does not depend on how tokens/contexts are named.", "DESIGN.md 5/C04"),
    "C05": ("regular-language equivalence of token/parser rules with cmake-language(7) by DFA product; generated-guard vs ATN FIRST sets; dispatch crash table",
            "Per-rule language equality (shortest counterexample printed) for identifier, unquoted, quoted, bracket (levels 0..3, "
            "thorough 0..5), escapes, comments, newline, space and the three parser rules; generated guards equal the ATN's FIRST sets; "
            "UTF-8 decode; runtime pin; no CRASH effect in the dispatch table (known finding: a command named generic_command). "
            "Maximal-munch interplay and the CMake corpus are not decided. Also: every command-name read is case folded (CMake commands are case-insensitive) and processors apply no unguarded partial operation (re.match(...).group etc.) to argument text. Round 3: rendering is total; every raise of the listener is guarded by the current command's arguments; rejections depend on arity only. Rounds 4-5: accepted-arity table; .index()/min()/max() partial operations; no command kind raises at file level (both stacks empty). Round 6: definition-stack push/pop discipline (a balanced file never pops an empty stack). Round 7: doccomment tokens bounded by their own delimiters; generic arguments bound in source order.", "DESIGN.md 5/C05"),
    "C07": ("receiver-ownership analysis of render emissions + template/indent analysis of rstwriter",
            "Nesting clause only: every emission of every entry kind has a receiver that descends from the one directive the entry "
            "created on the incoming writer, members are rendered on the class directive, all nested element lines start with the "
            "indent, the heading is element 0 and the module entry is first. docutils validity is not decided. Also: the cleaner and the module callback preserve relative indentation of doc lines, and no option is emitted in a loop. Round 3: doc text starts its own block; members attach to the innermost class; no line break is introduced into a field/argument/option value. Round 4: set() values are bound by the argument-count partition (C07-R10), stdout mode prints exactly the page and info-level logging is confined to file mode across the pipeline (C07-R11), index written before the pages (C07-R12). Round 7: the optional space is removed uniformly; class members rendered from the member lists in order.", "DESIGN.md 5/C07"),
    "C08": ("include-flag independence on the effect table with symbolic flag atoms (covers all 2^10 valuations), flag/processor/YAML table agreement",
            "Exhaustive over the abstraction: effects of DOC(k) are equal under all flag valuations; UNDOC(k) with flag off only drops "
            "the entry/attachment and keeps the stacks balanced; no other flag is consulted. Known finding F8 (documented cpp_class with "
            "its flag off pushes a None placeholder), pinned by two goldens. Also: later events address exactly the top of their stack (so placeholders shield documented entries), claiming an implementation is flag independent, and a member is rendered independently of its siblings. Rounds 4-5: unexplained rejections; what an entry shows is a function of its own kind and fields (C08-R7). Round 7: every doccomment-carrying command gets its own entry whatever preceded it; switch lookup independent of capitalisation.", "DESIGN.md 5/C08"),
    "C09": ("class-stack typestate from the effect table + binding terms + class render terms",
            "Exhaustive over the abstraction (default flags): push/pop/attach discipline, inner-class registration before push, claim of "
            "implementing definitions; field bindings of Method/Attribute/Class; render blocks use the same field in guard, heading "
            "and loop, parameter i paired with type i, macro note iff is_macro, value option iff default. Thorough adds trace exploration. Also: :param:/:type: fields of a method are emitted independently; settings dataclasses are plain records. Round 3: members are never rejected by comparing their class argument with remembered state; list/field lines indented. Round 4: accepted-arity table for cpp_class/cpp_member/cpp_attr. Round 7: the macro note does not depend on how macro() is capitalised.",
            "DESIGN.md 5/C09"),
    "C10": ("interval partition of the argument count + binding terms + enum exhaustiveness of the rendering",
            "All argument counts (interval reasoning over len(args)), all VarType members: UNSET/STRING/LIST classification, quote "
            "stripping of exactly one leading/trailing quote, list join by one space, option argument positions and 'OFF' default. Also: field values reach the text unmodified; set()/option() protocol rows. Rounds 4-5: accepted-arity table for set()/option(); every command-name read is case folded before it is compared or dispatched (C10-R7). Round 7: the lexer reads the file as it is on disk (no whole-file rewriting).",
            "DESIGN.md 5/C10"),
    "C11": ("keyword-scan loop summaries + value-filter lint + sibling clone diff + render terms",
            "All three processors: NAME/EXPECTFAIL scans have the prescribed guard and index, CMakeTest siblings are alpha-equal, the CTest "
            "signature excludes by position, EXPECTFAIL shown iff flag, three distinct warnings, one entry per test/section event (documented commands: under every flag valuation), every entry rendered once in list order. The NAME lookup may be a scan loop or a position comprehension; siblings are compared on evaluated terms. Round 4: name from a fixed position is rejected; accepted arities; unexplained rejections. Round 6: rendering table for the three test kinds; an undocumented test command consults the switch of its own kind.",
            "DESIGN.md 5/C11"),
    "C12": ("path-sensitive title/module terms of document_single_file, taint to names, heading length domain, module-entry effects, ATN token facts",
            "Structural: on every abstract path title and module are [ext-strip iff option off]([prefix+sep+] relpath|basename); no ABS "
            "label reaches a name; heading lines are |title|*|char| and rebuilt by the setter; exactly one default module entry at index 0 "
            "iff none exists; @module tokens cannot attach to a command; top-directory test compares with '.'. Injectivity of names is "
            "not decided. Also: per-input isolation of the default prefix. Round 5: the default prefix depends on the input path and -p only; class-level lists are never written in place. Round 6: the module directive is named exactly like the module entry. Round 7: -p outranks a settings file (source order); index titles use the configured separator.", "DESIGN.md 5/C12"),
    "C16": ("call-order analysis on main(), argparse table vs template, three-way agreement template/dataclass/YAML, settings-construction dataflow",
            "Call order and tables: set_file < set_args(dots=True) < get(template), nothing set afterwards; dotted destinations are "
            "template paths with default None; keys and types agree three ways; exclude filters = all_contents() after validation; "
            "relative_to_config selects the Filename flavour; Settings built from the validated dict only. confuse's own precedence "
            "and type rejection are trusted. Round 3: settings are deep-copied per input (the layered value is what every input sees). Round 4: the output-directory template is decided for both values of the flag on the evaluated template. Round 6: a list option must be validated by a template that rejects a plain string (F17, fixed); consumers read the option they are documented to read (own switch per kind, title/module options, every writer gets the settings in effect). Round 7: options read raw through all_contents() are validated by a template that rejects scalars; an explicitly empty prefix stays in effect.", "DESIGN.md 5/C16"),
    "C19": ("structural analysis of cmake/cminx.cmake (tokenizer + block matcher) and the package config template",
            "All statements of cminx_gen_rst: the executable runs unconditionally with COMMAND_ERROR_IS_FATAL, input and '-o' output "
            "quoted in place, options expanded unquoted, '-r' only under if(IS_DIRECTORY <input>) without else, ARGN forwarded "
            "unfiltered, CMINX_EXECUTABLE defined before the include. CMake's list semantics for ';' are not decided. Also: no command rebinds the input/output formals. Round 3: execute_process carries no WORKING_DIRECTORY/TIMEOUT/INPUT_FILE; the options variable is evaluated on every path for directory and file inputs. Round 5: if main() returns a status, every launcher (src/main.py, frozen into the executable) passes it to sys.exit; a handler around document() re-raises or exits non-zero. Round 6: all option variables of COMMAND are evaluated together, ARGN forwarded exactly once on every path, if(ARGN) is not an acceptable guard; main() passes every positional input to document() as given. Round 7: cminx_gen_rst is a function (a macro re-evaluates its arguments).", "DESIGN.md 5/C19"),
})

NOT_APPLICABLE = {}

#!/venv/bin/python
"""Regenerates MANIFEST.json from the table below (python tools/gen_manifest.py)."""
import importlib.util
import json
import os

HERE = os.path.dirname(os.path.dirname(os.path.abspath(__file__)))

TRUST = ("Python `ast` parses what the interpreter runs; antlr4-python3-runtime 4.7.2 ATN deserializer and the "
         "runtime facts listed in DESIGN.md section 2; confuse/pathspec/os.path semantics as listed there. The "
         "clauses named 'Not decided' in DESIGN.md section 5 are not claimed.")

CHECKS = {
    # id: (technique, level text, design ref)
}

spec = importlib.util.spec_from_file_location("manifest_table", os.path.join(HERE, "tools", "manifest_table.py"))
mt = importlib.util.module_from_spec(spec)
spec.loader.exec_module(mt)

checks = []
for pid, (technique, text, ref) in sorted(mt.CHECKS.items()):
    checks.append({
        "property_id": pid,
        "quick_cmd": f"./check {pid} quick",
        "thorough_cmd": f"./check {pid} thorough",
        "evidence_file": f"evidence/{pid}.json",
        "replay_cmd_template": "./check explain {path}",
        "engine": "cminx_sa",
        "level_claimed": {"category": "other", "text": text, "design_ref": ref},
        "level_note": TRUST,
        "technique": technique,
    })

manifest = {
    "version": 1,
    "setup_cmd": "./setup.sh",
    "hooks": {
        "guard": "CMINX_VERIF",
        "enable": "no hooks are needed: every check reads /repo's working tree with ast; the guard variable is unused",
        "baseline_off_cmd": "cd /repo && /venv/bin/python -m pytest -ra -q -p no:cacheprovider --timeout=900 --continue-on-collection-errors",
        "source_commits": [],
        "add_only": True,
    },
    "engines": mt.ENGINES,
    "checks": checks,
    "notes": mt.NOTES,
    "not_applicable": [{"property_id": p, "reason": r} for p, r in sorted(mt.NOT_APPLICABLE.items())],
}
with open(os.path.join(HERE, "MANIFEST.json"), "w") as f:
    json.dump(manifest, f, indent=1)
print("MANIFEST.json:", len(checks), "checks,", len(mt.NOT_APPLICABLE), "not applicable")

"""Variants for the checker self-test: one textual edit each (first occurrence
unless all=True).  kind 'break' must produce a VIOLATION naming one of `rules`;
kind 'benign' must leave every listed property at exit 0."""

AGG = "src/cminx/aggregator.py"
INIT = "src/cminx/__init__.py"
DOC = "src/cminx/documenter.py"
DT = "src/cminx/documentation_types.py"
RW = "src/cminx/rstwriter.py"
CFG = "src/cminx/config.py"
YML = "src/cminx/config_default.yaml"
PINIT = "src/cminx/parser/__init__.py"
PAR = "src/cminx/parser/CMakeParser.py"
LEX = "src/cminx/parser/CMakeLexer.py"
CM = "cmake/cminx.cmake"

VARIANTS = []


def B(id_, props, rules, *edits, **kw):
    VARIANTS.append(dict(id=id_, kind="break", props=props if isinstance(props, list) else [props],
                         rules=rules if isinstance(rules, list) else [rules], edits=list(edits), **kw))


def G(id_, props, *edits, **kw):
    VARIANTS.append(dict(id=id_, kind="benign", props=props if isinstance(props, list) else [props], edits=list(edits), **kw))


# ------------------------------------------------------------------ C01
B("c01-lstrip-space", ["C01", "C04"], ["C01-R6", "C04-R4x"], (AGG, 'cleaned_line.lstrip("#[]")', 'cleaned_line.lstrip("#[] ")'))
B("c01-two-spaces", "C01", "C01-R6", (AGG, "cleaned_line = cleaned_line[1:]\n            cleaned_lines.append", "cleaned_line = cleaned_line[2:]\n            cleaned_lines.append"))
B("c01-rstrip-every-line", "C01", "C01-R6", (AGG, "            cleaned_lines.append(cleaned_line)", "            cleaned_lines.append(cleaned_line.rstrip())"))
B("c01-strip-doc-render", "C01", "C01-R4", (DT, "        d.text(self.doc)\n\n\n@dataclass\nclass MacroDocumentation", "        d.text(self.doc.strip())\n\n\n@dataclass\nclass MacroDocumentation"))
B("c01-writer-text", ["C01", "C07"], ["C01-R4", "C07-R1"], (DT, "            \"This is a generic command invocation. It is not a function or macro definition.\")\n        d.text(self.doc)", "            \"This is a generic command invocation. It is not a function or macro definition.\")\n        writer.text(self.doc)"))
B("c01-empty-doc-option", "C01", "C01-R3", (AGG, "            params[0],\n            docstring,\n            \"bool\",", "            params[0],\n            \"\",\n            \"bool\","))
B("c01-drop-text-ctest", "C01", "C01-R4", (DT, "            'Use the \"ctest\" program to execute this test.')\n        d.text(self.doc)", "            'Use the \"ctest\" program to execute this test.')"))
B("c01-indent-from-first-line", ["C01", "C04"], ["C01-R6", "C04-R4"], (AGG, "for i in range(0, len(lines[-1])):\n            if lines[-1][i] != \"#\":", "for i in range(0, len(lines[0])):\n            if lines[0][i] != \"#\":"))
B("c01-skip-empty-lines", "C01", "C01-R6", (AGG, "            cleaned_lines.append(cleaned_line)", "            if cleaned_line or not cleaned_lines:\n                cleaned_lines.append(cleaned_line)"))
B("c01-splitlines-paragraph", ["C01", "C20"], ["C01-R5", "C20-R6"], (RW, '[self.prefix + text for text in self.text.split("\\n")]', "[self.prefix + text for text in self.text.splitlines()]"))
B("c01-note-receives-doc", "C01", "C01-R4", (DT, "        note = d.directive(\"note\")", "        note = d.directive(\"note\")\n        d = note", ))
B("c01-ascii-decode", ["C01", "C05"], ["C01-R1", "C05-R1"], (DOC, 'FileStream(file, encoding="utf-8")', "FileStream(file)"))
B("c01-docstring-after-comment", "C01", "C01-R7", (LEX, '"Identifier", "Unquoted_argument"', '"Identifier", "Unquoted_argument"'), tier="quick") if False else None
G("c01-rename-local", ["C01", "C04"], (AGG, "cleaned_line", "cl"), all=True)
G("c01-widen-lstrip-punct", ["C01"], (AGG, 'cleaned_line.lstrip("#[]")', 'cleaned_line.lstrip("#[]")'))
G("c01-log-message-change", ["C01", "C02", "C06"], (AGG, "Detected dangling doccomment, ignoring.", "Dangling doccomment found; ignored."))

# ------------------------------------------------------------------ C02
B("c02-drop-consumed-test", "C02", "C02-R1", (AGG, ' and ctx not in self.consumed:', ':'))
B("c02-append-twice", "C02", "C02-R1", (AGG, "        self.documented.append(option_doc)", "        self.documented.append(option_doc)\n        self.documented.append(option_doc)"))
B("c02-insert-front", "C02", ["C02-R1", "C02-R3"], (AGG, "        self.documented.append(option_doc)", "        self.documented.insert(0, option_doc)"))
B("c02-set-autodoc", "C02", "C02-R1", (AGG, 'elif command != "set" and f"process_', 'elif f"process_'))
B("c02-forget-clear-awaiting", ["C02", "C09"], ["C02-R1", "C09-R1"], (AGG, "                self.documented_awaiting_function_def = None\n", "                pass\n"))
B("c02-sorted-render", "C02", "C02-R3", (DOC, "        for doc in docs:\n            doc.process(self.writer)", "        for doc in sorted(docs, key=lambda d: d.name):\n            doc.process(self.writer)"))
B("c02-macro-no-note", "C02", "C02-R4", (DT, "        d.directive(\n            \"note\",\n            \"This is a macro, and so does not introduce a new scope.\")\n", ""))
B("c02-generic-comma-join", "C02", "C02-R4", (DT, "            \"function\", f\"{self.name}({' '.join(self.params)})\")\n        d.directive(\n            \"warning\",\n            \"This is a generic", "            \"function\", f\"{self.name}({', '.join(self.params)})\")\n        d.directive(\n            \"warning\",\n            \"This is a generic"))
B("c02-dangling-becomes-entry", "C02", ["C02-R1", "C02-R2"], (AGG, "            self.logger.warning(\n                f\"Detected dangling", "            self.documented.append(DanglingDoccomment(\"\", ctx.getText()))\n            self.logger.warning(\n                f\"Detected dangling"))
B("c02-consumed-by-text", "C02", ["C02-R1", "C02-R2"], (AGG, "            self.consumed.append(ctx.command_invocation())", "            self.consumed.append(ctx.command_invocation().getText())"), )
B("c02-test-not-awaiting", ["C02", "C11"], ["C02-R1", "C11-R5"], (AGG, "        self.documented.append(test_doc)\n        self.documented_awaiting_function_def = test_doc", "        self.documented.append(test_doc)"))
G("c02-rename-attr", ["C02", "C03", "C08", "C09"], (AGG, "documented_awaiting_function_def", "pending_declaration"), all=True)
G("c02-elif-reorder", ["C02", "C03", "C09"], (AGG, '            elif command == "cpp_end_class":\n                self.documented_classes_stack.pop()\n            elif command == "cmake_parse_arguments":\n                self.process_cmake_parse_arguments(ctx, "")', '            elif command == "cmake_parse_arguments":\n                self.process_cmake_parse_arguments(ctx, "")\n            elif command == "cpp_end_class":\n                self.documented_classes_stack.pop()'))
G("c02-in-tuple-idiom", ["C02", "C03", "C09"], (AGG, 'elif command == "endfunction" or command == "endmacro":', 'elif command in ("endfunction", "endmacro"):'))

# ------------------------------------------------------------------ C03
B("c03-mark-bottom", "C03", "C03-R1", (AGG, "last_element = self.definition_command_stack[-1]", "last_element = self.definition_command_stack[0]"))
B("c03-no-pop-endmacro", "C03", "C03-R1", (AGG, 'elif command == "endfunction" or command == "endmacro":', 'elif command == "endfunction":'))
B("c03-strip-name-too", "C03", "C03-R2", (AGG, 'function_name = def_params[0].getText()', 'function_name = re.sub(self.settings.input.function_parameter_name_strip_regex, "", def_params[0].getText())'))
B("c03-swap-regex", "C03", "C03-R2", (AGG, 're.sub(self.settings.input.macro_parameter_name_strip_regex, "", p.getText()) for p in def_params[1:]', 're.sub(self.settings.input.function_parameter_name_strip_regex, "", p.getText()) for p in def_params[1:]'))
B("c03-kwargs-first", "C03", "C03-R3", (DT, '            param_list.append("**kwargs")\n        d = writer.directive(\n            "function", f"{self.name}({\' \'.join(param_list)})")\n        d.text(self.doc)', '            param_list.insert(0, "**kwargs")\n        d = writer.directive(\n            "function", f"{self.name}({\' \'.join(param_list)})")\n        d.text(self.doc)'))
B("c03-mark-ignores-should-document", "C03", "C03-R1", (AGG, "            if last_element.should_document and isinstance(last_element.documentation,\n                                                           AbstractCommandDefinitionDocumentation):", "            if last_element.documentation is not None or True:"))
B("c03-claim-pushes-entry", "C03", "C03-R1", (AGG, "                self.definition_command_stack.append(DefinitionCommand(None, False))\n            elif command == \"endfunction\"", "                pass\n            elif command == \"endfunction\""))
B("c03-params-from-0", "C03", "C03-R2", (AGG, 're.sub(self.settings.input.function_parameter_name_strip_regex, "", p.getText()) for p in def_params[1:]', 're.sub(self.settings.input.function_parameter_name_strip_regex, "", p.getText()) for p in def_params[0:]'))
B("c03-no-placeholder-when-flag-off", ["C03", "C08"], ["C03-R1", "C08-R2"], (AGG, '                elif command == "function" or command == "macro":\n                    self.definition_command_stack.append(DefinitionCommand(None, False))', '                elif command == "function":\n                    self.definition_command_stack.append(DefinitionCommand(None, False))'))
B("c03-trigger-in-name", "C03", "C03-R2", (AGG, "has_kwargs = self.settings.input.kwargs_doc_trigger_string in docstring\n\n        # Extracts function name", "has_kwargs = self.settings.input.kwargs_doc_trigger_string in function_name\n\n        # Extracts function name"))
G("c03-pop-minus-one", ["C03"], (AGG, "self.definition_command_stack.pop()", "self.definition_command_stack.pop(-1)"))
G("c03-len-minus-one", ["C03"], (AGG, "last_element = self.definition_command_stack[-1]", "last_element = self.definition_command_stack[len(self.definition_command_stack) - 1]"))
G("c03-len-ge-1", ["C03"], (AGG, "if len(self.definition_command_stack) > 0:", "if len(self.definition_command_stack) >= 1:"))
G("c03-truthy-stack", ["C03"], (AGG, "if len(self.definition_command_stack) > 0:", "if self.definition_command_stack:"))

# ------------------------------------------------------------------ C04
B("c04-drop-lower", ["C04"], ["C04-R3"], (AGG, "command = ctx.Identifier().getText().lower()\n\n        try:", "command = ctx.Identifier().getText()\n\n        try:"))
B("c04-line-in-entry", "C04", "C04-R2", (AGG, "doc = FunctionDocumentation(function_name, docstring, params, has_kwargs)", "doc = FunctionDocumentation(function_name + str(ctx.start.line), docstring, params, has_kwargs)"))
B("c04-upper-literal", ["C04", "C09"], ["C04-R3", "C09-R1", "C02-R1"], (AGG, 'elif command == "cpp_end_class":', 'elif command == "CPP_END_CLASS":'))

# ------------------------------------------------------------------ C05 / C06
B("c06-remove-parser-listener", "C06", ["C06-R2", "C06-R3"], (DOC, "        self.parser.addErrorListener(ParserErrorListener())\n", ""))
B("c06-remove-lexer-listener", "C06", "C06-R1", (DOC, "        self.lexer.addErrorListener(LexerErrorListener())\n", ""))
B("c06-remove-gate", "C06", "C06-R2", (DOC, "        if self.parser.getNumberOfSyntaxErrors() > 0:", "        if self.parser.getNumberOfSyntaxErrors() > 1000:"))
B("c06-log-instead-of-raise", "C06", ["C06-R3", "C06-R1"], (PINIT, "        s = CMakeSyntaxError()\n        s.lineno = f\"{line}:{column}\"\n        s.msg = msg\n        raise s\n\n\nclass ParserErrorListener", "        logging.getLogger(__name__).error(msg)\n\n\nclass ParserErrorListener"))
B("c06-swallow-in-single-file", "C06", "C06-R4", (INIT, "    output_writer = auto_documenter.process()\n", "    try:\n        output_writer = auto_documenter.process()\n    except Exception as e:\n        logger.error(e)\n        return\n"))
B("c06-subrule-entry", "C06", "C06-R6", (DOC, "tree = self.parser.cmake_file()", "tree = self.parser.command_invocation()"))
B("c06-exit-zero", "C06", "C06-R7", (INIT, "        exit(-1)", "        exit(0)"))
B("c06-lexer-raises-recognition", "C06", "C06-R1", (PINIT, "        s = CMakeSyntaxError()\n        s.lineno = f\"{line}:{column}\"\n        s.msg = msg\n        raise s\n\n\nclass ParserErrorListener", "        raise e\n\n\nclass ParserErrorListener"))
B("c06-swallow-in-aggregator", "C06", "C06-R4", (AGG, "            self.logger.error(f\"Caught exception while processing command beginning at line number {line_num}\")\n            raise e", "            self.logger.error(f\"Caught exception while processing command beginning at line number {line_num}\")"))
B("c06-remove-listeners-after-add", "C06", ["C06-R1", "C06-R2"], (DOC, "        self.lexer.addErrorListener(LexerErrorListener())\n", "        self.lexer.addErrorListener(LexerErrorListener())\n        self.lexer.removeErrorListeners()\n"))
G("c06-message-change", ["C06"], (DOC, "syntax error(s) detected while parsing", "syntax errors found"))
G("c06-gate-neq", ["C06"], (DOC, "self.parser.getNumberOfSyntaxErrors() > 0:", "self.parser.getNumberOfSyntaxErrors() != 0:"))
B("c05-guard-token-removed", "C05", "C05-R4", (PAR, "if token in [CMakeParser.Identifier, CMakeParser.Unquoted_argument, CMakeParser.Quoted_argument, CMakeParser.Bracket_argument]:\n                    self.state = 36", "if token in [CMakeParser.Identifier, CMakeParser.Unquoted_argument, CMakeParser.Quoted_argument]:\n                    self.state = 36"))
B("c05-pin-changed", "C05", "C05-R6", ("pyproject.toml", "antlr4-python3-runtime==4.7.2", "antlr4-python3-runtime==4.9.3"))

# ------------------------------------------------------------------ C07 / C20
B("c20-mutate-in-to-text", "C20", "C20-R1", (RW, "        document_string = \"\"\n        for element in self.document:", "        document_string = \"\"\n        self.document.append(Paragraph(\"\"))\n        for element in self.document:"))
B("c20-field-no-indent", ["C20", "C07"], ["C20-R3", "C07-R2a"], (RW, 'f"\\n{self.indent}:{self.field_name}: {self.field_text}"', 'f"\\n:{self.field_name}: {self.field_text}"'))
B("c20-indents-two-spaces", ["C20", "C07"], ["C20-R4", "C07-R2b"], (RW, "        indents += '   '", "        indents += '  '"))
B("c20-options-after-content", ["C20", "C14"], ["C20-R5", "C14-R4"], (RW, "        for option in self.options:\n            document_string += f\"{option}\\n\"\n\n        if len(self.document) > 1:\n            document_string += \"\\n\"\n\n        for element in self.document[1:]:\n            document_string += f\"{element}\\n\"", "        if len(self.document) > 1:\n            document_string += \"\\n\"\n\n        for element in self.document[1:]:\n            document_string += f\"{element}\\n\"\n\n        for option in self.options:\n            document_string += f\"{option}\\n\""))
B("c20-no-blank-line", "C20", "C20-R5", (RW, "        if len(self.document) > 1:\n            document_string += \"\\n\"\n", ""))
B("c20-heading-len-minus", ["C20", "C12"], ["C20-R2", "C12-R4"], (RW, "        for _ in self.title:\n            heading += self.header_char", "        for _ in self.title[1:]:\n            heading += self.header_char"))
B("c20-setter-no-rebuild", ["C20", "C12"], ["C20-R2", "C12-R4"], (RW, "        self.__title = new_title\n        self.document[0] = self.build_heading()", "        self.__title = new_title"))
B("c20-nested-same-indent", ["C20", "C07"], ["C20-R4", "C07-R2b"], (RW, "super().__init__(name, settings=settings, indent=indent + 1)", "super().__init__(name, settings=settings, indent=indent)"))
B("c20-text-no-indent", ["C20", "C07"], ["C20-R4", "C07-R2b"], (RW, "self.document.append(Paragraph(txt, indent=get_indents(self.indent)))", "self.document.append(Paragraph(txt))"))
B("c20-list-indent-once", ["C20"], ["C20-R3"], (RW, '                self.list_string += f"{self.indent}* {item}\\n"', '                self.list_string += f"* {item}\\n"'))
B("c20-header-char-level", ["C20", "C12"], ["C20-R2", "C12-R4"], (RW, "self.header_char: str = self.heading_level_chars[section_level]", "self.header_char: str = self.heading_level_chars[0]"))
G("c20-heading-multiply", ["C20", "C12"], (RW, "        heading = \"\"\n        for _ in self.title:\n            heading += self.header_char\n", "        heading = self.header_char * len(self.title)\n"))
G("c20-indents-multiply", ["C20", "C07"], (RW, "    indents = \"\"\n    for i in range(0, num):\n        # Directives require the first non-whitespace character\n        # of every line to line up with the first letter of\n        # the directive name\n        indents += '   '\n    return indents", "    return '   ' * num"))
G("c20-rename-local", ["C20", "C07", "C14"], (RW, "document_string", "out"), all=True)

# ------------------------------------------------------------------ C08
B("c08-doc-member-checks-flag", "C08", "C08-R1", (AGG, "        clazz = self.documented_classes_stack[-1]\n        # Shouldn't document because class isn't supposed to be documented\n        if clazz is None:\n            return\n\n        parent_class = params[1]", "        clazz = self.documented_classes_stack[-1]\n        # Shouldn't document because class isn't supposed to be documented\n        if clazz is None or not self.settings.input.include_undocumented_cpp_member:\n            return\n\n        parent_class = params[1]"))
B("c08-wrong-flag", "C08", "C08-R2", (AGG, 'if self.settings.input.__dict__[f"include_undocumented_{command}"]:', 'if self.settings.input.include_undocumented_function:'))
B("c08-flag-missing-yaml", "C08", "C08-R3", (YML, "  include_undocumented_option: true\n", ""))
B("c08-default-false", "C08", "C08-R3", (YML, "include_undocumented_add_test: true", "include_undocumented_add_test: false"))

# ------------------------------------------------------------------ C09
B("c09-attach-bottom", "C09", "C09-R1", (AGG, "        clazz = self.documented_classes_stack[-1]\n        # Shouldn't document because class isn't supposed to be documented\n        if clazz is None:\n            return\n        parent_class = params[0]", "        clazz = self.documented_classes_stack[0]\n        # Shouldn't document because class isn't supposed to be documented\n        if clazz is None:\n            return\n        parent_class = params[0]"))
B("c09-push-before-inner", "C09", "C09-R1", (AGG, "        if len(self.documented_classes_stack) > 0 and self.documented_classes_stack[-1] is not None:\n            self.documented_classes_stack[-1].inner_classes.append(clazz)\n\n        # Continue processing within the class's context\n        # until we reach cpp_end_class()\n        self.documented_classes_stack.append(clazz)", "        self.documented_classes_stack.append(clazz)\n        if len(self.documented_classes_stack) > 0 and self.documented_classes_stack[-1] is not None:\n            self.documented_classes_stack[-1].inner_classes.append(clazz)"))
B("c09-swap-guard-loop", "C09", "C09-R3", (DT, "        if len(self.members) > 0:\n            d.text(\"**Methods**\")\n            for member in self.members:", "        if len(self.members) > 0:\n            d.text(\"**Methods**\")\n            for member in self.constructors:"))
B("c09-params-from-1", "C09", "C09-R2", (AGG, "                if len(params) > 2:\n                    param_names = params[2:]", "                if len(params) > 2:\n                    param_names = params[1:]"))
B("c09-types-from-1", "C09", "C09-R2", (AGG, "param_types = params[2:] if len(params) > 2 else []", "param_types = params[1:] if len(params) > 2 else []"))
B("c09-ctor-to-members", "C09", "C09-R1", (AGG, "        if is_constructor:\n            clazz.constructors.append(method_doc)\n        else:\n            clazz.members.append(method_doc)", "        clazz.members.append(method_doc)"))
B("c09-macro-flag-inverted", "C09", "C09-R2", (AGG, 'self.documented_awaiting_function_def.is_macro = command == "macro"', 'self.documented_awaiting_function_def.is_macro = command == "function"'))
B("c09-type-index-shift", "C09", "C09-R3", (DT, 'd.field(f"type {self.params[i]}", self.param_types[i])', 'd.field(f"type {self.params[i]}", self.param_types[i - 1])'))
B("c09-attr-default-index", "C09", "C09-R2", (AGG, "default_values = params[2] if len(params) > 2 else None", "default_values = params[1] if len(params) > 2 else None"))
B("c09-no-pop", "C09", "C09-R1", (AGG, '            elif command == "cpp_end_class":\n                self.documented_classes_stack.pop()', '            elif command == "cpp_end_class":\n                pass'))
B("c09-shared-lists", "C09", "C09-R2", (AGG, "clazz = ClassDocumentation(name, docstring, superclasses, [], [], [], [])", "empty = []\n        clazz = ClassDocumentation(name, docstring, superclasses, empty, empty, empty, empty)"))
B("c09-value-option-always", "C09", "C09-R3", (DT, "        if self.default_value is not None:\n            d.option(\"value\", self.default_value)", "        d.option(\"value\", self.default_value)"))
G("c09-rename-clazz", ["C09", "C02"], (AGG, "clazz", "klass"), all=True)

# ------------------------------------------------------------------ C10 / C11
B("c10-gt2", "C10", "C10-R1", (AGG, "        if arg_len > 1:  # List", "        if arg_len > 2:  # List"))
B("c10-swap-option-args", "C10", "C10-R3", (AGG, "            params[2] if len(params) == 3 else None,\n            params[1]\n", "            params[1] if len(params) == 3 else None,\n            params[2]\n"))
B("c10-join-comma", "C10", "C10-R1", (AGG, 'varname, docstring, VarType.LIST, " ".join(values)))', 'varname, docstring, VarType.LIST, ";".join(values)))'))
B("c10-strip-quotes", "C10", "C10-R1", (AGG, "            if value[0] == '\"':\n                value = value[1:]\n            if value[-1] == '\"':\n                value = value[:-1]", "            value = value.strip('\"')"))
B("c10-list-label", "C10", "C10-R2", (DT, '            var_type = "list"', '            var_type = "str"'))
B("c10-off-default", "C10", "C10-R2", (DT, 'self.value if self.value is not None else "OFF"', 'self.value if self.value is not None else "ON"'))
B("c10-values-from-0", "C10", "C10-R1", (AGG, "                      for val in ctx.single_argument()[1:]]", "                      for val in ctx.single_argument()[0:]]"))
G("c10-len-eq-idiom", ["C10"], (AGG, "params[2] if len(params) == 3 else None", "params[2] if len(params) > 2 else None"))
B("c11-i-plus-2", "C11", "C11-R1", (AGG, "                    name = params[i + 1]\n                except IndexError:\n                    pretty_text = docstring\n                    pretty_text += f\"\\n{ctx.getText()}\"\n\n                    self.logger.error(\n                        f\"ct_add_test()", "                    name = params[i + 2]\n                except IndexError:\n                    pretty_text = docstring\n                    pretty_text += f\"\\n{ctx.getText()}\"\n\n                    self.logger.error(\n                        f\"ct_add_test()"))
B("c11-value-filter", "C11", "C11-R3", (AGG, "[p for i, p in enumerate(params) if i not in name_indices]", '[p for p in params if p != name and p != "NAME"]'))
B("c11-expectfail-substring", "C11", "C11-R1", (AGG, '            if param.upper() == "EXPECTFAIL":\n                expect_fail = True\n\n        test_doc', '            if "EXPECTFAIL" in param.upper():\n                expect_fail = True\n\n        test_doc'))
B("c11-section-warning-copy", "C11", "C11-R4", (DT, '"This is a CMakeTest section definition, do not call this manually."', '"This is a CMakeTest test definition, do not call this manually."'))
B("c11-expectfail-inverted", "C11", "C11-R4", (DT, "f\"{self.name}({'EXPECTFAIL' if self.expect_fail else ''})\")\n        d.directive(\n            \"warning\",\n            \"This is a CMakeTest section", "f\"{self.name}({'' if self.expect_fail else 'EXPECTFAIL'})\")\n        d.directive(\n            \"warning\",\n            \"This is a CMakeTest section"))
B("c11-section-name-case", "C11", ["C11-R1", "C11-R2"], (AGG, '            if param.upper() == "NAME":\n                try:\n                    name = params[i + 1]\n                except IndexError:\n                    pretty_text = docstring\n                    pretty_text += f"\\n{ctx.getText()}"\n\n                    self.logger.error(f"ct_add_section()', '            if param == "name":\n                try:\n                    name = params[i + 1]\n                except IndexError:\n                    pretty_text = docstring\n                    pretty_text += f"\\n{ctx.getText()}"\n\n                    self.logger.error(f"ct_add_section()'))

# ------------------------------------------------------------------ C12
B("c12-abspath-title", ["C12", "C17"], ["C12-R1", "C12-R1b", "C17-R1"], (INIT, "        header_name = os.path.basename(file)", "        header_name = os.path.abspath(file)"))
B("c12-swap-ext-flags", "C12", "C12-R2", (INIT, "    if not settings.rst.file_extensions_in_titles:\n        header_name = re.sub", "    if not settings.rst.file_extensions_in_modules:\n        header_name = re.sub"))
B("c12-unanchored-sub", "C12", "C12-R2", (INIT, 'header_name = re.sub(r"\\.cmake$", "", header_name)', 'header_name = re.sub(r"\\.cmake", "", header_name)'))
B("c12-prefix-no-sep", "C12", "C12-R3", (INIT, "            header_name = prefix + module_path_separator + header_name", "            header_name = prefix + header_name"))
B("c12-module-before-prefix", "C12", "C12-R3", (INIT, "    if prefix is not None:\n        # If current file dir is same as root dir, replace \".\" with prefix\n        if header_name == module_path_separator:", "    module_name = header_name\n    if prefix is not None:\n        # If current file dir is same as root dir, replace \".\" with prefix\n        if header_name == module_path_separator:"), ) if False else None
B("c12-second-module-entry", "C12", "C12-R5", (DOC, "        if len(module_docs) == 0:\n            docs.insert(0, ModuleDocumentation(self.module_name, \"\"))", "        docs.insert(0, ModuleDocumentation(self.module_name, \"\"))"))
B("c12-module-entry-last", ["C12", "C07"], ["C12-R5", "C07-R3"], (DOC, "docs.insert(0, ModuleDocumentation(self.module_name, \"\"))", "docs.append(ModuleDocumentation(self.module_name, \"\"))"))
B("c12-topdir-separator", ["C12", "C14"], ["C12-R6", "C14-R3"], (INIT, "if index.title == os.curdir:", "if index.title == settings.rst.module_path_separator:"))
B("c12-prefix-from-abs", "C12", "C12-R3d", (INIT, "last_dir_element = os.path.basename(os.path.normpath(input_file))", "last_dir_element = os.path.dirname(os.path.normpath(input_file))"))
G("c12-rename-header", ["C12", "C17", "C13"], (INIT, "header_name", "title_text"), all=True)

# ------------------------------------------------------------------ C13 / C14 / C15 / C17 / C18
B("c13-write-next-to-source", ["C13", "C18"], ["C13-R2", "C18-R1", "C13-R1", "C18-R4"], (INIT, "            output_filename = os.path.join(\n                output_path, \".\".join(\n                    os.path.basename(file).split(\".\")[\n                    :-1]) + \".rst\")", "            output_filename = os.path.join(\n                os.path.dirname(file), \".\".join(\n                    os.path.basename(file).split(\".\")[\n                    :-1]) + \".rst\")"))
B("c13-flat-output", ["C13", "C18"], ["C13-R2", "C18-R4"], (INIT, "                output_filename = os.path.join(\n                    output_path, os.path.join(\n                        os.path.dirname(subpath), \".\".join(", "                output_filename = os.path.join(\n                    output_path, os.path.join(\n                        \"\", \".\".join("))
B("c13-break-unconditional", "C13", "C13-R3", (INIT, "            if not recursive:\n                break", "            if recursive:\n                break"))
B("c14-toctree-unfiltered", ["C14", "C13"], ["C14-R1", "C13-R4d"], (INIT, "for file in [f for f in filenames if f.lower().endswith(\".cmake\")]:", "for file in [f for f in os.listdir(root) if f.lower().endswith(\".cmake\")]:"))
B("c14-subdirs-always", "C14", "C14-R1", (INIT, "                if recursive:\n                    for directory in subdirs:\n                        toctree.text(directory + \"/index.rst\")", "                if True:\n                    for directory in subdirs:\n                        toctree.text(directory + \"/index.rst\")"))
B("c14-precheck-unfiltered", "C14", "C14-R2", (INIT, " \\\n                                and not spec.match_file(filename.path):", ":"))
B("c14-page-predicate-case", ["C14", "C13"], ["C14-R1p", "C13-R4c"], (INIT, "                if file.lower().endswith(\".cmake\"):", "                if file.endswith(\".cmake\"):"))
B("c15-remove-while-iterating", ["C15", "C13", "C14"], ["C15-R1", "C13-R4a", "C14-R2m"], (INIT, "            for file in copy.copy(filenames):", "            for file in filenames:"))
B("c15-sort-before-prune", "C15", "C15-R2", (INIT, "            logger.debug(f\"Subdirs: {subdirs}\")", "            subdirs = sorted(subdirs)\n            logger.debug(f\"Subdirs: {subdirs}\")"))
B("c15-no-trailing-slash", "C15", "C15-R3", (INIT, "                        os.path.join(\n                            subdir,\n                            \"\"))):", "                        subdir)):"))
B("c15-highest-source-only", ["C15", "C16"], ["C15-R3", "C16-R4"], (INIT, "    settings_obj.input.exclude_filters = list(\n        settings[\"input\"][\"exclude_filters\"].all_contents())", "    settings_obj.input.exclude_filters = list(\n        settings[\"input\"][\"exclude_filters\"].get())"))
B("c15-makedirs-before-return", "C15", "C15-R4", (INIT, "    # If the input path matches the exclusion pattern, then ignore\n    # this whole path\n    if spec.match_file(input_path):\n        return\n", "    if output_path is not None:\n        os.makedirs(output_path, exist_ok=True)\n    if spec.match_file(input_path):\n        return\n"))
B("c15-topdown-false", "C15", "C15-R2", (INIT, "input_path, topdown=True,", "input_path, topdown=False,"))
B("c17-unsorted-files", ["C17", "C18"], ["C17-R2", "C18-R6"], (INIT, "            filenames = sorted(filenames)\n", ""))
B("c17-store-into-settings", "C17", "C17-R3", (INIT, "        new_settings.rst.prefix = prefix", "        settings.rst.prefix = prefix"))
B("c17-no-deepcopy", "C17", "C17-R3", (INIT, "    new_settings = copy.deepcopy(settings)", "    new_settings = settings"))
B("c17-time-in-title", "C17", "C17-R2", (INIT, "                index = RSTWriter(rel_path, settings=settings)", "                import time\n                index = RSTWriter(rel_path + time.strftime('%Y'), settings=settings)"))
B("c17-cwd-relpath", ["C17", "C12"], ["C17-R1", "C12-R1", "C12-R1b"], (INIT, "        header_name = os.path.relpath(file, root)", "        header_name = os.path.relpath(file)"))
B("c17-class-level-cache", "C17", "C17-R3", (RW, "        self.document.append(Paragraph(txt, indent=get_indents(self.indent)))", "        self.heading_level_chars.append('+')\n        self.document.append(Paragraph(txt, indent=get_indents(self.indent)))"))
B("c17-default-arg-write", "C17", "C17-R3", (AGG, "        self.settings: Settings = settings\n", "        self.settings: Settings = settings\n        self.settings.input.recursive = False\n"))
B("c18-makedirs-unguarded", ["C18", "C13"], ["C18-R1", "C13-R1"], (INIT, "        if output_path is not None:\n            os.makedirs(output_path, exist_ok=True)\n        document_single_file(input_path, input_path, new_settings)", "        os.makedirs(output_path or '.', exist_ok=True)\n        document_single_file(input_path, input_path, new_settings)"))
B("c18-delete-output", "C18", "C18-R2", (INIT, "                os.makedirs(path, exist_ok=True)\n", "                if os.path.exists(os.path.join(path, 'index.rst')):\n                    os.remove(os.path.join(path, 'index.rst'))\n                os.makedirs(path, exist_ok=True)\n"))
B("c18-print-no-newline", "C18", "C18-R3", (INIT, 'print(str(output_writer) + "\\n")', "print(str(output_writer))"))
B("c18-info-in-stdout-mode", "C18", "C18-R3", (INIT, "    # Only log when not writing to stdout\n    if output_path is not None:\n        logger.info(f\"Writing for file {file}\")", "    logger.info(f\"Writing for file {file}\")"))
B("c18-print-index", "C18", "C18-R3", (INIT, "                toctree = index.directive(\"toctree\")", "                print(index)\n                toctree = index.directive(\"toctree\")"))
G("c13-rename-loop-vars", ["C13", "C14", "C15", "C17", "C18"], (INIT, "subdirs", "dirnames"), all=True)
G("c15-list-copy-idiom", ["C15", "C13", "C14"], (INIT, "for file in copy.copy(filenames):", "for file in list(filenames):"))
G("c17-debug-log", ["C17", "C18", "C13"], (INIT, '            logger.debug(f"Root: {root}")', '            logger.debug(f"Walking {root} below {input_path}")'))

# ------------------------------------------------------------------ C16
B("c16-args-before-file", "C16", "C16-R1", (INIT, "    if args.settings is not None:\n        # Additional settings file was defined on the command line\n        settings.set_file(os.path.abspath(args.settings))\n\n    settings.set_args(args, dots=True)\n", "    settings.set_args(args, dots=True)\n\n    if args.settings is not None:\n        # Additional settings file was defined on the command line\n        settings.set_file(os.path.abspath(args.settings))\n"))
B("c16-default-false", "C16", "C16-R2", (INIT, '        action="store_true",\n        default=None,', '        action="store_true",\n        default=False,'))
B("c16-no-dots", "C16", "C16-R1", (INIT, "settings.set_args(args, dots=True)", "settings.set_args(args)"))
B("c16-dest-typo", "C16", "C16-R2", (INIT, 'dest="rst.prefix")', 'dest="rst.prefixes")'))
B("c16-yaml-type", "C16", "C16-R3", (YML, "  recursive: false", "  recursive: \"false\""))
B("c16-template-missing-key", "C16", "C16-R3", (CFG, '            "follow_symlinks": bool\n', ""))
B("c16-filename-swapped", "C16", "C16-R5", (CFG, "confuse.Filename(cwd=os.getcwd()) if not output_dir_relative_to_config", "confuse.Filename(cwd=os.getcwd()) if output_dir_relative_to_config"))
B("c16-sections-swapped", "C16", "C16-R6", (CFG, '    rst_settings = RSTSettings(**input_dict["rst"])', '    rst_settings = RSTSettings(**input_dict["output"])'))
B("c16-template-default-differs", "C16", "C16-R3", (CFG, 'confuse.Optional(confuse.String(), default=":keyword")', 'confuse.Optional(confuse.String(), default=":param **kwargs:")'))
B("r6-list-template-accepts-str", "C16", "C16-R3", (CFG, "confuse.Optional(confuse.Sequence(confuse.String()), default=())", "confuse.Optional(list, default=())"))
G("c16-help-text", ["C16"], (INIT, "Load settings from the specified YAML file.", "Load additional settings from a YAML file."))

# ------------------------------------------------------------------ C19
B("c19-no-fatal", "C19", "C19-R1", (CM, "        COMMAND_ERROR_IS_FATAL ANY\n", ""))
B("c19-r-unconditional", "C19", "C19-R3", (CM, '    if(IS_DIRECTORY "${_cgd_dir}")\n        list(APPEND _cgr_cminx_options "-r")\n    endif()', '    list(APPEND _cgr_cminx_options "-r")'))
B("c19-options-quoted", "C19", "C19-R2", (CM, '"${_cgd_dir}" ${_cgr_cminx_options}', '"${_cgd_dir}" "${_cgr_cminx_options}"'))
B("c19-o-wrong-formal", "C19", "C19-R2", (CM, '"-o" "${_cgd_output}"', '"-o" "${_cgd_dir}"'))
B("c19-argn-first-only", "C19", "C19-R4", (CM, 'list(APPEND _cgr_cminx_options "${ARGN}")', 'list(APPEND _cgr_cminx_options "${ARGV2}")'))
B("c19-is-directory-output", "C19", "C19-R3", (CM, 'if(IS_DIRECTORY "${_cgd_dir}")', 'if(IS_DIRECTORY "${_cgd_output}")'))
B("c19-dedupe-args", "C19", "C19-R4", (CM, "    execute_process(", "    list(REMOVE_DUPLICATES _cgr_cminx_options)\n    execute_process("))
G("c19-rename-var", ["C19"], (CM, "_cgr_cminx_options", "_cgr_opts"), all=True)
G("c19-result-check-idiom", ["C19"], (CM, "        COMMAND_ERROR_IS_FATAL ANY\n    )", "    )\n    if(NOT ${process_result} EQUAL 0)\n        message(FATAL_ERROR \"cminx failed: ${process_err}\")\n    endif()"))

# ------------------------------------------------------------------ round-2 rules: benign twins and direct breakers
ALL_FS = ["C12", "C13", "C14", "C15", "C17", "C18"]
G("r2-page-loop-in-both-mode-arms", ALL_FS,
  (INIT, "            for file in filenames:\n                if file.lower().endswith(\".cmake\"):\n                    document_single_file(\n                        os.path.join(\n                            root,\n                            file),\n                        input_path,\n                        new_settings)\n",
   "            if output_path is not None:\n                for file in filenames:\n                    if file.lower().endswith(\".cmake\"):\n                        document_single_file(os.path.join(root, file), input_path, new_settings)\n            else:\n                for file in filenames:\n                    if file.lower().endswith(\".cmake\"):\n                        document_single_file(os.path.join(root, file), input_path, new_settings)\n"))
G("r2-input-path-if-else", ALL_FS,
  (INIT, "    input_path = os.path.abspath(input_file)\n    if os.path.isdir(input_path):\n        # os.path.join() adds a trailing slash to directories if absent\n        input_path = os.path.join(input_path, '')\n",
   "    absolute = os.path.abspath(input_file)\n    if os.path.isdir(absolute):\n        input_path = absolute + os.sep\n    else:\n        input_path = absolute\n"))
G("r2-order-free-set-loop", ["C17", "C02", "C12"],
  (DOC, "        for doc in docs:\n            doc.process(self.writer)", "        kinds = set(type(doc).__name__ for doc in docs)\n        has_module = False\n        for kind in kinds:\n            if kind == \"ModuleDocumentation\":\n                has_module = True\n        self.logger_has_module = has_module and len(kinds) > 0\n        for doc in docs:\n            doc.process(self.writer)"))
G("r2-module-name-by-partition", ["C12", "C01", "C04", "C07"],
  (AGG, 'module_name = cleaned_lines[0].replace("@module", "").strip()', 'module_name = cleaned_lines[0].partition("@module")[2].strip()'))
G("r2-module-name-regex-wide", ["C12", "C04"],
  (AGG, 'module_name = cleaned_lines[0].replace("@module", "").strip()', 'name_match = re.search(r"@module\\s*(.*)", cleaned_lines[0])\n        module_name = (name_match.group(1) if name_match is not None else "").strip()'))
B("r2-module-name-regex-narrow", "C12", "C12-R5m",
  (AGG, 'module_name = cleaned_lines[0].replace("@module", "").strip()', 'name_match = re.search(r"@module\\s*([\\w.]+)", cleaned_lines[0])\n        module_name = (name_match.group(1) if name_match is not None else "").strip()'))
B("r2-index-write-conditional", ["C14", "C13"], ["C14-R5", "C13-R7"],
  (INIT, "                index.write_to_file(", "                if subdirs or filenames:\n                  index.write_to_file("))
B("r2-walk-relative-root", ["C17", "C15"], ["C17-R6", "C15-R5"],
  (INIT, "        for root, subdirs, filenames in os.walk(\n                input_path,", "        for root, subdirs, filenames in os.walk(\n                os.path.relpath(input_path),"))
B("r2-set-iteration-render", "C17", "C17-R4",
  (DT, "            for attribute in self.attributes:", "            for attribute in frozenset(self.attributes):"))
B("r2-skip-dir-in-file-mode", "C18", "C18-R8",
  (INIT, "            filenames = sorted(filenames)\n", "            filenames = sorted(filenames)\n            if output_path is not None and root.startswith(output_path):\n                continue\n"))
B("r2-exclude-type-conversion", "C15", "C15-R3",
  (INIT, '        dest="input.exclude_filters",\n        action="append")', '        dest="input.exclude_filters",\n        type=str.strip,\n        action="append")'))
B("r2-bool-template-literal", "C16", "C16-R3",
  (CFG, '            "recursive": bool,', '            "recursive": False,'))

# ------------------------------------------------------------------ round-3 rules: direct breakers and benign twins
B("r3-overstrict-class-arity", ["C09", "C02"], ["C09-R6", "C02-R11"],
  (AGG, "        if len(ctx.single_argument()) < 1:\n            pretty_text = docstring\n            pretty_text += f\"\\n{ctx.getText()}\"\n\n            self.logger.error(f\"cpp_class() called",
   "        if len(ctx.single_argument()) < 1 or len(ctx.single_argument()) > 4:\n            pretty_text = docstring\n            pretty_text += f\"\\n{ctx.getText()}\"\n\n            self.logger.error(f\"cpp_class() called"))
B("r3-finally-return", "C06", "C06-R10",
  (DOC, "        self.process_docs(self.aggregator.documented)\n", "        try:\n            self.process_docs(self.aggregator.documented)\n        finally:\n            return self.writer\n"))
B("r3-lf-only-replace", "C04", "C04-R6",
  (AGG, "        cleaned_doc = \"\\n\".join(cleaned_lines)", "        cleaned_doc = \"\\n\".join(cleaned_lines).replace(\" \\n\", \"\\n\")"))
G("r3-crlf-aware-replace", ["C04", "C01"],
  (AGG, 'logger.error(f"cpp_class() called with incorrect parameters', 'logger.error(f"cpp_class() called with incorrect parameters'))
B("r3-raise-on-state", "C05", "C05-R10",
  (AGG, "    def enterBracket_doccomment(self, ctx", "    def exitCmake_file(self, ctx):\n        if self.documented_classes_stack:\n            raise CMakeSyntaxException(\"unterminated cpp_class\", 0)\n\n    def enterBracket_doccomment(self, ctx"))
B("r3-strict-zip", ["C05", "C02"], ["C05-R9", "C02-R9"],
  (DT, "        for i in range(len(self.param_types)):\n            if i >= len(self.params):\n                break\n", "        for i, (_p, _t) in enumerate(zip(self.params, self.param_types, strict=True)):\n"))
B("r3-cmake-working-directory", "C19", "C19-R2",
  (CM, "        OUTPUT_VARIABLE process_output", "        WORKING_DIRECTORY \"${CMAKE_CURRENT_SOURCE_DIR}\"\n        OUTPUT_VARIABLE process_output"))
B("r3-exclude-filters-set", ["C15", "C17"], ["C15-R3", "C17-R4"],
  (INIT, "    settings_obj.input.exclude_filters = list(\n        settings[\"input\"][\"exclude_filters\"].all_contents())", "    settings_obj.input.exclude_filters = list(set(\n        settings[\"input\"][\"exclude_filters\"].all_contents()))"))

# ------------------------------------------------------------------ round-4 rules: benign twins and direct breakers
G("r4-match-only-cmake-files-ci", ALL_FS,
  (INIT, "                if spec.match_file(os.path.join(root, file)):\n                    filenames.remove(file)", "                if file.lower().endswith(\".cmake\") and spec.match_file(os.path.join(root, file)):\n                    filenames.remove(file)"))
B("r4-match-only-cmake-files-cs", "C15", "C15-R3",
  (INIT, "                if spec.match_file(os.path.join(root, file)):\n                    filenames.remove(file)", "                if file.endswith(\".cmake\") and spec.match_file(os.path.join(root, file)):\n                    filenames.remove(file)"))
G("r4-page-call-try-reraise", ALL_FS,
  (INIT, "                    document_single_file(\n                        os.path.join(\n                            root,\n                            file),\n                        input_path,\n                        new_settings)\n",
   "                    try:\n                        document_single_file(os.path.join(root, file), input_path, new_settings)\n                    except Exception:\n                        logger.error(f\"Failed to document {file}\")\n                        raise\n"))
B("r4-page-call-try-swallow", ["C14", "C06"], ["C14-R8", "C06-R4"],
  (INIT, "                    document_single_file(\n                        os.path.join(\n                            root,\n                            file),\n                        input_path,\n                        new_settings)\n",
   "                    try:\n                        document_single_file(os.path.join(root, file), input_path, new_settings)\n                    except Exception:\n                        logger.error(f\"Failed to document {file}\")\n"))
B("r4-info-log-in-documenter", ["C18", "C07"], ["C18-R3", "C07-R11"],
  (DOC, "        self.process_docs(self.aggregator.documented)\n", "        logging.getLogger(__name__).info(\"processing\")\n        self.process_docs(self.aggregator.documented)\n"))
B("r4-getcwd-prefix", "C17", "C17-R2",
  (INIT, "        last_dir_element = os.path.basename(os.path.normpath(input_file))", "        last_dir_element = os.path.basename(os.path.normpath(input_file)) or os.path.basename(os.getcwd())"))
G("r4-index-kw-in-try-valueerror", ["C05", "C11", "C02"],
  (AGG, "        self.consumed: List[ParserRuleContext] = []", "        self.consumed: List[ParserRuleContext] = []\n        try:\n            self._probe = [\"a\"].index(\"a\")\n        except ValueError:\n            self._probe = -1"))

# ------------------------------------------------------------------ renames of locals (no rule may depend on a local's name)
ALLP = [f"C{n:02d}" for n in range(1, 21)]
G("ren-init-prefix", ALLP, (INIT, "prefix", "name_prefix"), all=True, word=True)
G("ren-init-new-settings", ALLP, (INIT, "new_settings", "per_input_settings"), all=True, word=True)
G("ren-init-input-path", ALLP, (INIT, "input_path", "abs_input"), all=True, word=True)
G("ren-init-output-path", ALLP, (INIT, "output_path", "out_dir"), all=True, word=True)
G("ren-init-spec", ALLP, (INIT, "spec", "exclude_spec"), all=True, word=True)
G("ren-init-recursive", ALLP, (INIT, "recursive", "descend"), all=True, word=True)
G("ren-init-root", ALLP, (INIT, "root", "current_dir"), all=True, word=True)
G("ren-init-filenames", ALLP, (INIT, "filenames", "names"), all=True, word=True)
G("ren-init-settings-obj", ALLP, (INIT, "settings_obj", "cfg"), all=True, word=True)
G("ren-init-settings-dict", ALLP, (INIT, "settings_dict", "validated"), all=True, word=True)
G("ren-init-header-name", ALLP, (INIT, "header_name", "page_title"), all=True, word=True)
G("ren-init-module-name", ALLP, (INIT, "module_name", "mod_name"), all=True, word=True)
G("ren-doc-docs", ALLP, (DOC, "docs", "entries"), all=True, word=True)
G("ren-doc-module-docs", ALLP, (DOC, "module_docs", "modules_found"), all=True, word=True)
G("ren-agg-params", ALLP, (AGG, "params", "arguments"), all=True, word=True)
G("ren-agg-clazz", ALLP, (AGG, "clazz", "owner_class"), all=True, word=True)
G("ren-agg-docstring", ALLP, (AGG, "docstring", "doc_text"), all=True, word=True)
G("ren-agg-command", ALLP, (AGG, "command", "cmd_name"), all=True, word=True)
G("ren-dt-d", ALLP, (DT, "d", "directive"), all=True, word=True)
G("ren-rst-document-string", ALLP, (RW, "document_string", "rendered"), all=True, word=True)

G("ren-init-args", ALLP, (INIT, "args", "argv"), all=True, word=True)
G("ren-init-parser", ALLP, (INIT, "parser", "arg_parser"), all=True, word=True)
G("ren-init-settings", ALLP, (INIT, "settings", "conf"), all=True, word=True)
G("ren-init-subdirs", ALLP, (INIT, "subdirs", "child_dirs"), all=True, word=True)
G("ren-init-file", ALLP, (INIT, "file", "cmake_path"), all=True, word=True)
G("ren-init-input-file", ALLP, (INIT, "input_file", "given_path"), all=True, word=True)
G("ren-init-index", ALLP, (INIT, "index", "dir_index"), all=True, word=True)
G("ren-init-toctree", ALLP, (INIT, "toctree", "toc"), all=True, word=True)
G("ren-init-auto-documenter", ALLP, (INIT, "auto_documenter", "documenter"), all=True, word=True)
G("ren-init-output-writer", ALLP, (INIT, "output_writer", "page"), all=True, word=True)
G("ren-doc-tree", ALLP, (DOC, "tree", "parse_tree"), all=True, word=True)
G("ren-doc-title", ALLP, (DOC, "title", "page_title"), all=True, word=True)
G("ren-agg-lines", ALLP, (AGG, "lines", "raw_lines"), all=True, word=True)
G("ren-agg-cleaned-lines", ALLP, (AGG, "cleaned_lines", "out_lines"), all=True, word=True)
G("ren-agg-name", ALLP, (AGG, "name", "entry_name"), all=True, word=True)
G("ren-agg-expect-fail", ALLP, (AGG, "expect_fail", "xfail"), all=True, word=True)
G("ren-agg-last-element", ALLP, (AGG, "last_element", "top"), all=True, word=True)
G("ren-agg-def-params", ALLP, (AGG, "def_params", "definition_args"), all=True, word=True)
G("ren-agg-ctx", ALLP, (AGG, "ctx", "context"), all=True, word=True)
G("ren-dt-param-list", ALLP, (DT, "param_list", "shown"), all=True, word=True)
G("ren-dt-note", ALLP, (DT, "note", "admonition"), all=True, word=True)
G("ren-dt-writer", ALLP, (DT, "writer", "out"), all=True, word=True)
G("ren-rst-element", ALLP, (RW, "element", "item"), all=True, word=True)
G("ren-rst-option", ALLP, (RW, "option", "opt"), all=True, word=True)
G("ren-cfg-input-dict", ALLP, (CFG, "input_dict", "validated"), all=True, word=True)

VARIANTS = [v for v in VARIANTS if v is not None]

# ------------------------------------------------------------------ round 6
G("r6-token-local-text", ["C04", "C01", "C12", "C07"], (AGG, "        text = ctx.Module_docstring().getText()", "        docstring_token = ctx.Module_docstring().symbol\n        text = docstring_token.text"))
B("r6-token-column-prefix", "C04", "C04-R2", (AGG, "        text = ctx.Module_docstring().getText()", "        docstring_token = ctx.Module_docstring().symbol\n        text = \" \" * docstring_token.column + docstring_token.text"))
B("r6-symlinks-listed", "C14", "C14-R11", (INIT, "            if not settings.input.follow_symlinks:\n                for subdir in copy.copy(subdirs):\n                    if os.path.islink(os.path.join(root, subdir)):\n                        subdirs.remove(subdir)\n", ""))
B("r6-symlinks-pruned-when-followed", "C14", "C14-R11", (INIT, "            if not settings.input.follow_symlinks:\n                for subdir in copy.copy(subdirs):", "            if settings.input.follow_symlinks:\n                for subdir in copy.copy(subdirs):"))
G("r6-symlinks-slice-filter", ["C13", "C14", "C15", "C17", "C18"], (INIT, "                for subdir in copy.copy(subdirs):\n                    if os.path.islink(os.path.join(root, subdir)):\n                        subdirs.remove(subdir)\n", "                subdirs[:] = [d for d in subdirs if not os.path.islink(os.path.join(root, d))]\n"))
G("r6-positional-renamed", ["C19", "C16", "C06"], (INIT, '        "files",\n', '        "inputs",\n'), (INIT, "for input_file in args.files:", "for input_file in args.inputs:"))
B("r6-inputs-globbed", "C19", "C19-R8", (INIT, "    for input_file in args.files:\n", "    import glob\n    for input_file in [f for a in args.files for f in (glob.glob(a) if glob.has_magic(a) else [a])]:\n"))
G("r6-writer-settings-positional", ["C16", "C12", "C20"], (DOC, "RSTWriter(title, settings=settings)", "RSTWriter(title, 0, settings)"))
B("r6-writer-without-settings", "C16", "C16-R10", (DOC, "RSTWriter(title, settings=settings)", "RSTWriter(title)"))
G("r6-write-local-text", ["C01", "C18", "C20"], (RW, "                f.write(str(self))", "                rendered = str(self)\n                f.write(rendered)"))
B("r6-write-stripped", "C01", "C01-R12", (RW, "                f.write(str(self))", "                f.write(str(self).strip() + \"\\n\")"))
B("r6-pool-map", "C06", "C06-R13", (INIT, "    for input_file in args.files:\n        # Process all files specified on command line\n        document(input_file, settings_obj)", "    import concurrent.futures\n    with concurrent.futures.ThreadPoolExecutor() as pool:\n        for input_file in args.files:\n            pool.submit(document, input_file, settings_obj)"))
B("r7-continue-skips-cutoff", "C17", "C17-R10", (INIT, "                    if not recursive:\n                        break\n                    continue\n", "                    continue\n"))
G("r7-cutoff-by-guard", ["C13", "C14", "C17"], (INIT, "                    if not recursive:\n                        break\n                    continue\n", "                    if recursive:\n                        continue\n                    break\n"))

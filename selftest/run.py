#!/venv/bin/python
"""Self-test of the checker, both ways (DESIGN section 8).

For every variant: copy the analysed part of /repo to a scratch directory
outside /repo and /verif, apply one textual edit, run the property's check with
--repo pointing at the copy (evidence redirected to the scratch dir), delete the
copy.  Breaking variants must exit 1 with a VIOLATION naming the expected rule;
benign variants must exit 0.

usage: selftest/run.py [-j N] [-k substring] [--list]
"""
import concurrent.futures as cf
import json
import os
import shutil
import subprocess
import sys
import tempfile
import time

HERE = os.path.dirname(os.path.abspath(__file__))
VERIF = os.path.dirname(HERE)
REPO = os.environ.get("CMINX_SA_REPO", "/repo")
sys.path.insert(0, HERE)
from variants import VARIANTS  # noqa: E402

ALL = [f"C{n:02d}" for n in range(1, 21)]
import glob as _glob
for _p in sorted(_glob.glob(os.path.join(HERE, "benign_patches", "*.diff"))):
    # behaviour-preserving refactorings written by independent agents (each verified by the 69 tests and a differential
    # run over several hundred scenarios): every check must stay silent on them
    VARIANTS.append(dict(id="refactor-" + os.path.basename(_p)[:-5], kind="benign", props=ALL, edits=[], patch=_p))
for _d in sorted(_glob.glob(os.path.join(VERIF, "seeded", "*"))):
    # regressions seeded by independent agents: the check of the property they break must fire
    try:
        _m = json.load(open(os.path.join(_d, "meta.json")))
    except Exception:
        continue
    if _m.get("caught_by_own_property_check") and _m.get("property"):
        _rules = sorted({r for k, v in _m.get("checks_fired", {}).items() if k.startswith(_m["property"] + "/quick") for r in v["rules"]})
        if _rules:
            VARIANTS.append(dict(id="seeded-" + os.path.basename(_d), kind="break", props=[_m["property"]], rules=_rules, edits=[],
                                 patch=os.path.join(_d, "patch.diff")))

COPY = ["src", "cmake", "pyproject.toml"]


def run_variant(v):
    tmp = tempfile.mkdtemp(prefix="cminx_sa_st_")
    try:
        for c in COPY:
            s = os.path.join(REPO, c)
            d = os.path.join(tmp, "repo", c)
            if os.path.isdir(s):
                shutil.copytree(s, d, ignore=shutil.ignore_patterns("__pycache__", "*.pyc", "*.egg-info"))
            else:
                os.makedirs(os.path.dirname(d), exist_ok=True)
                shutil.copy(s, d)
        if v.get("patch"):
            r = subprocess.run(["git", "apply", "--whitespace=nowarn", v["patch"]], cwd=os.path.join(tmp, "repo"), capture_output=True, text=True)
            if r.returncode != 0:
                return v, "EDIT-FAILED", "patch does not apply: " + r.stderr[:120], 0.0
        for rel, old, new in v["edits"]:
            p = os.path.join(tmp, "repo", rel)
            src = open(p, encoding="utf-8").read()
            if src.count(old) < 1:
                return v, "EDIT-FAILED", f"pattern not found in {rel}: {old[:50]!r}", 0.0
            if v.get("word") and rel.endswith(".py"):
                # rename an identifier (variables and parameters, never attributes or keyword names) on the syntax tree
                import ast as _ast
                tree = _ast.parse(src)
                hits = 0
                for n in _ast.walk(tree):
                    if isinstance(n, _ast.Name) and n.id == old:
                        n.id = new
                        hits += 1
                    elif isinstance(n, _ast.arg) and n.arg == old:
                        n.arg = new
                        hits += 1
                    elif isinstance(n, (_ast.Global, _ast.Nonlocal)):
                        n.names = [new if x == old else x for x in n.names]
                if hits == 0:
                    return v, "EDIT-FAILED", f"identifier {old!r} not found in {rel}", 0.0
                src = _ast.unparse(tree)
            else:
                src = src.replace(old, new, 1) if not v.get("all") else src.replace(old, new)
            open(p, "w", encoding="utf-8").write(src)
        # the variant must still be valid Python
        for rel, _o, _n in v["edits"]:
            if rel.endswith(".py"):
                try:
                    compile(open(os.path.join(tmp, "repo", rel), encoding="utf-8").read(), rel, "exec")
                except SyntaxError as e:
                    return v, "EDIT-FAILED", f"variant does not compile: {e}", 0.0
        env = dict(os.environ, CMINX_SA_EVIDENCE_DIR=os.path.join(tmp, "evidence"))
        t0 = time.time()
        results = []
        for prop in v["props"]:
            r = subprocess.run(["/venv/bin/python", "-B", "-m", "cminx_sa", prop, v.get("tier", "quick"), "--repo", os.path.join(tmp, "repo")],
                               cwd=VERIF, env=env, capture_output=True, text=True, timeout=600)
            results.append((prop, r.returncode, r.stdout + r.stderr))
        dt = time.time() - t0
        if v["kind"] == "break":
            for prop, rc, out in results:
                rules = v.get("rules") or []
                hit = rc == 1 and "VIOLATION property=" + prop in out and (not rules or any(("  " + r + " ") in out or (r + " at") in out for r in rules))
                if not hit:
                    return v, "MISSED", f"{prop}: exit {rc}; " + out.strip().splitlines()[-1][:200] if out.strip() else f"{prop}: exit {rc}", dt
            return v, "ok", "", dt
        else:
            for prop, rc, out in results:
                if rc != 0:
                    lines = [l for l in out.splitlines() if l.startswith("  ") or "ANALYSIS-ERROR" in l]
                    return v, "FALSE-ALARM" if rc == 1 else "ANALYSIS-ERROR", f"{prop}: exit {rc}; " + " | ".join(lines)[:300], dt
            return v, "ok", "", dt
    finally:
        shutil.rmtree(tmp, ignore_errors=True)


def main():
    args = sys.argv[1:]
    jobs = 16
    sel = None
    if "-j" in args:
        jobs = int(args[args.index("-j") + 1])
    if "-k" in args:
        sel = args[args.index("-k") + 1]
    vs = [v for v in VARIANTS if sel is None or sel in v["id"] or sel in " ".join(v["props"])]
    if "--list" in args:
        for v in vs:
            print(v["id"], v["kind"], v["props"], v.get("rules"))
        return 0
    t0 = time.time()
    bad = 0
    with cf.ThreadPoolExecutor(max_workers=jobs) as ex:
        for v, status, msg, dt in ex.map(run_variant, vs):
            if status != "ok":
                bad += 1
                print(f"{status:14} {v['id']:40} {v['kind']:6} {','.join(v['props'])}  {msg}")
    nb = sum(1 for v in vs if v["kind"] == "break")
    print(f"selftest: {len(vs)} variants ({nb} breaking, {len(vs) - nb} benign), {bad} problems, {time.time() - t0:.1f}s")
    if not bad and sel is None:
        # the controls are now validated for exactly this tree (see cminx_sa.__main__.run_controls)
        sys.path.insert(0, VERIF)
        from cminx_sa.__main__ import tree_digest
        import json
        json.dump({"digest": tree_digest(REPO), "variants": len(vs),
                   "note": "written by a full selftest run with 0 problems; the thorough tier treats a control failure as a defect "
                           "of the checker only on a tree with this digest"},
                  open(os.path.join(VERIF, "selftest", "validated_tree.json"), "w"), indent=1)
    return 1 if bad else 0


if __name__ == "__main__":
    sys.exit(main())
